"""C07 — strict_coercion only narrows the accepted inputs (clauses: DESIGN.md 3/C07)."""
from __future__ import annotations

import ast
import re
from typing import Dict, List, Optional, Set, Tuple

from ..closures import provider_classes
from ..core import AnalysisError, CheckResult, ClassInfo, Finding, ModuleInfo, Repo, func_params, norm, walk_no_nested
from ..esc import Esc
from ..modes import DT, FuncVal, closures_for
from ..sib import Signature, signature_of
from ..values import Resolver, ctx_for

LEVEL = "other"
EXHAUSTIVE = True
EXPLANATION = (
    "(1) Monotone use of the flag: every read of a StrictCoercionRequest result is a call argument, the test of an "
    "`if` whose body only rejects (positive polarity), or the selector between two sibling closures. (2) Pairwise "
    "narrowing: for every provider and debug mode the strict closure has the acceptance signature of the lax closure "
    "plus reject-only guards (same probes, same element applications, same result builder; lax tests/rejects are a "
    "subset); for the scalar providers every accepting path of the strict loader returns the datum itself under an "
    "exact-type guard whose types are fixed points of the lax constructor, or applies the very constructor the lax "
    "loader applies. (3) The documented strict guards exist: iterable, tuple and flag-list loaders reject str and "
    "Mapping before iterating; Literal uses (type, value) membership whenever a case is a bool or an exact 0/1."
)
RULE = "one evaluation = one flag read / one strict-lax sibling pair / one scalar loader path"
ASSUMPTIONS = ["idempotent-constructor table {int, float, str, bool, Decimal, Fraction, complex}: C(x) == x and "
               "type(C(x)) is type(x) for x of exactly type C", "overlap of union cases is excluded by the property"]

FIXED_POINTS = {"int": {"int"}, "float": {"float"}, "str": {"str"}, "bool": {"bool"}, "Decimal": {"Decimal"},
                "Fraction": {"Fraction"}, "complex": {"complex"}}
MAPPING_TEST = re.compile(r"isinstance\(DATUM, (CollectionsMapping|Mapping|collections\.abc\.Mapping|abc\.Mapping)\)")
STR_TEST = re.compile(r"type\(DATUM\) is str")


def run(repo: Repo, tier: str, res: CheckResult, seed: int = 0) -> None:
    R = Resolver(repo)
    flag_uses(repo, res)
    sibling_pairs(repo, R, res)
    scalar_pairs(repo, R, res)
    literal_rule(repo, res)
    from .c11 import caches_not_carried_over
    caches_not_carried_over(repo, res, prop="C07", rule="NARROW.loaders-shared-across-coercion-modes",
                            consequence="a retort derived with replace(strict_coercion=True) from a used lax retort answers with the LAX loaders (accepts '10' for int), and a lax clone used first makes the strict original lax")
    res.assumptions = list(ASSUMPTIONS)


# ------------------------------------------------------------------------------------------ (1)
def _reject_only(body: List[ast.stmt]) -> bool:
    if not body:
        return False
    for st in body:
        if isinstance(st, ast.Raise):
            continue
        if isinstance(st, ast.If):
            if not _reject_only(st.body) or (st.orelse and not _reject_only(st.orelse)):
                return False
            continue
        return False
    return isinstance(body[-1], (ast.Raise, ast.If))


def flag_uses(repo: Repo, res: CheckResult) -> None:
    n = 0
    for m in repo.modules.values():
        if "/morphing/" not in m.rel and "/integrations/" not in m.rel:
            continue
        if "/facade/" in m.rel:
            continue  # retort construction API: the flag is configuration there, not a loader decision
        # names that hold the flag: `strict_coercion` (parameter / keyword convention of the code base) and every local that
        # is assigned the answer of a StrictCoercionRequest, whatever it is called
        flag_names = {"strict_coercion"}
        for a in ast.walk(m.tree):
            if isinstance(a, ast.Assign) and isinstance(a.targets[0], ast.Name) and "StrictCoercionRequest" in norm(a.value):
                flag_names.add(a.targets[0].id)
        for node in ast.walk(m.tree):
            if not (isinstance(node, ast.Name) and node.id in flag_names and isinstance(node.ctx, ast.Load)):
                continue
            parent = m.parent(node)
            fn = m.enclosing_function(node)
            qual = m.qualname(node)
            n += 1
            res.evaluated(f"flag:{m.rel}:{qual}:{node.lineno}", True)
            # climb through boolean operators
            top: ast.AST = node
            polarity = True
            while isinstance(m.parent(top), (ast.BoolOp, ast.UnaryOp)):
                p = m.parent(top)
                if isinstance(p, ast.UnaryOp) and isinstance(p.op, ast.Not):
                    polarity = not polarity
                top = p
            holder = m.parent(top)
            in_closure = fn is not None and m.enclosing_function(fn) is not None \
                and func_params(fn)[:1] and func_params(fn)[0] in ("data", "iterable")
            if isinstance(holder, ast.keyword) or (isinstance(holder, ast.Call) and top in holder.args):
                continue  # (i) argument of cached_call / constructor / generator
            if isinstance(holder, (ast.Assign, ast.AnnAssign)) and top is holder.value:
                continue  # stored as configuration
            if isinstance(holder, ast.If) and top is holder.test:
                if in_closure:
                    # inside a loader: only `if strict and ...: raise`
                    or_under = isinstance(top, ast.BoolOp) and isinstance(top.op, ast.Or)
                    if polarity and not or_under and _reject_only(holder.body) and not holder.orelse:
                        continue
                    res.add(Finding("C07", "FLAG.non-monotone-use", m.rel, qual, norm(holder)[:160],
                                    "inside a loader the strict flag may only guard a reject-only block with positive "
                                    "polarity (`if strict_coercion and <test>: raise ...`); here it changes what is "
                                    "accepted or returned in another way, so a datum accepted under strict coercion can "
                                    "be rejected or load differently under lax coercion", holder.lineno))
                    continue
                continue  # (iii) selection between siblings in a factory: proven by the sibling rule
            if isinstance(holder, ast.IfExp) and top is holder.test and not in_closure:
                continue
            if isinstance(holder, ast.Return) and not in_closure:
                continue
            res.add(Finding("C07", "FLAG.non-monotone-use", m.rel, qual, norm(holder)[:160] if holder is not None else norm(node),
                            "the strict_coercion flag flows into a computation other than a key argument, a reject-only "
                            "guard or the selection of a sibling closure", node.lineno))
    res.count("FLAG.reads", n, 15)
    # the generator's own flag
    m = repo.mod("morphing/model/loader_gen")
    n2 = 0
    for node in ast.walk(m.tree):
        if isinstance(node, ast.Attribute) and node.attr == "_strict_coercion" and isinstance(node.ctx, ast.Load):
            n2 += 1
            holder = m.parent(node)
            res.evaluated(f"flag:loader_gen:{node.lineno}", True)
            if isinstance(holder, ast.If) and holder.test is node and not holder.orelse:
                # the guarded generator call must emit a reject-only block
                ok = True
                for st in holder.body:
                    if isinstance(st, ast.Expr) and isinstance(st.value, ast.Call) and isinstance(st.value.func, ast.Attribute):
                        callee = m.classes["BuiltinModelLoaderGen"].methods.get(st.value.func.attr)
                        if callee is None or not _emits_reject_only(callee):
                            ok = False
                    else:
                        ok = False
                if ok:
                    continue
            res.add(Finding("C07", "FLAG.non-monotone-use", m.rel, m.qualname(node), norm(holder)[:160] if holder else "",
                            "the model generator uses the strict flag for something else than emitting a reject-only "
                            "guard", node.lineno))
    res.count("FLAG.generator-reads", n2, 1)


def _emits_reject_only(fn: ast.FunctionDef) -> bool:
    """generator helper whose emitted text is `if <test>:` + a raise helper"""
    withs = [w for w in ast.walk(fn) if isinstance(w, ast.With)]
    if len(withs) != 1:
        return False
    w = withs[0]
    hdr = norm(w.items[0].context_expr)
    if "if " not in hdr:
        return False
    return all(isinstance(s, ast.Expr) and isinstance(s.value, ast.Call) and "raise" in norm(s.value.func) for s in w.body)


# ------------------------------------------------------------------------------------------ (2)
def sibling_pairs(repo: Repo, R: Resolver, res: CheckResult) -> None:
    eng = Esc(repo, R, role="loader")
    n = 0
    for ci in provider_classes(repo, "provide_loader"):
        if "integrations/" in ci.module.rel or ci.module.rel.endswith("provider_template.py"):
            continue
        if ci.name == "LiteralProvider":
            continue  # composition of case loaders: decided by literal_rule (and the kind-agreement rule of C02)
        found = repo.find_method(ci, "provide_loader")
        if found is None or not found[1].body:
            continue
        for dt in DT:
            s_cl = closures_for(repo, ci, "provide_loader", dt, True)
            l_cl = closures_for(repo, ci, "provide_loader", dt, False)
            if not s_cl and not l_cl:
                continue
            if [id(f.fn) for f in s_cl] == [id(f.fn) for f in l_cl]:
                continue
            if len(s_cl) != len(l_cl):
                raise AnalysisError(f"{ci.name}: strict and lax dispatch hand out different numbers of closures")
            for fs, fl in zip(s_cl, l_cl):
                ss, sl = signature_of(repo, eng, fs), signature_of(repo, eng, fl)
                n += 1
                res.evaluated(f"pair:{ci.name}:{dt}:{fs.name}/{fl.name}", True)
                res.sample({"provider": ci.name, "debug_trail": dt, "strict": ss.as_dict(), "lax": sl.as_dict()}, limit=5)
                problems: List[str] = []
                if ss.probes != sl.probes:
                    problems.append(f"probes differ: strict {sorted(ss.probes)} / lax {sorted(sl.probes)}")
                if set(ss.applies) != set(sl.applies):
                    problems.append("element loaders are applied differently")
                if ss.returns != sl.returns:
                    problems.append(f"results are built differently: {sorted(ss.returns)} / {sorted(sl.returns)}")
                lax_only_tests = set(sl.tests) - set(ss.tests)
                lax_only_rej = set(sl.rejects) - set(ss.rejects)
                if lax_only_tests or lax_only_rej:
                    problems.append(f"the lax variant rejects more: tests {sorted(lax_only_tests)}, errors "
                                    f"{sorted(map(str, lax_only_rej))}")
                extra = set(ss.tests) - set(sl.tests)
                for t in sorted(extra):
                    if not _test_is_reject_only(fs, t):
                        problems.append(f"extra strict test `{t}` does not guard a reject-only block")
                if problems:
                    res.add(Finding("C07", "NARROW.strict-not-lax-plus-guards", fs.module.rel, f"{ci.name}:{dt}",
                                    f"{ss.name} vs {sl.name}: " + "; ".join(problems),
                                    f"the strict variant of the {ci.name} loader is not the lax variant plus reject-only "
                                    f"guards ({'; '.join(problems)}): some datum accepted with strict_coercion=True is "
                                    "rejected or loaded differently with strict_coercion=False", fs.fn.lineno))
                # (3) documented guards
                if ci.name in ("IterableProvider", "ConstantLengthTupleProvider"):
                    res.evaluated(f"docguard:{ci.name}:{dt}", True)
                    if not any(STR_TEST.search(t) for t in ss.tests) or not any(MAPPING_TEST.search(t) for t in ss.tests):
                        res.add(Finding("C07", "DOC.strict-guards-missing", fs.module.rel, f"{ci.name}:{dt}:{fs.name}",
                                        "; ".join(sorted(ss.tests)) or "no tests",
                                        "the strict loader must reject str and Mapping before iterating (documented: "
                                        "'takes any iterable excluding str and Mapping')", fs.fn.lineno))
    res.count("NARROW.sibling-pairs", n, 6)
    # flag list provider: one closure, flag captured
    m = repo.mod("morphing/enum_provider")
    ci = m.classes.get("FlagByListProvider")
    if ci is None:
        raise AnalysisError("anchor vanished: FlagByListProvider")
    fn = ci.methods["_make_loader"]
    cl = [d for d in fn.body if isinstance(d, ast.FunctionDef)]
    res.evaluated("docguard:FlagByListProvider", True)
    txt = norm(cl[0]) if cl else ""
    if "strict_coercion and isinstance(data, CollectionsMapping)" not in txt or "is not str" not in txt:
        res.add(Finding("C07", "DOC.strict-guards-missing", m.rel, "FlagByListProvider._make_loader.flag_loader",
                        "mapping/str guards", "the flag-list loader must treat str as a single value (never iterate it) and "
                        "reject Mapping under strict coercion", fn.lineno))


def _test_is_reject_only(fv: FuncVal, test_txt: str) -> bool:
    fns = [fv.fn] + [b[0] for b in fv.flat_bindings().values()]
    for fn in fns:
        params = func_params(fn)
        d = params[0] if params else "data"
        for node in ast.walk(fn):
            if isinstance(node, ast.If):
                t = re.sub(rf"\b{re.escape(d)}\b", "DATUM", norm(node.test))
                if t == test_txt:
                    return _reject_only(node.body) and not node.orelse
    return False


# ------------------------------------------------------------------------------------------ scalars
def _lax_constructor(m: ModuleInfo, lax: ast.FunctionDef, strict_fn: ast.FunctionDef, target: str, res: CheckResult) -> Optional[str]:
    """the constructor C the lax loader applies to the datum (`return C(d)` or `x = C(d) ... return x`); every rejection of
    the lax loader outside the handlers around that application (a test on the datum or on the constructed value) must also
    be a rejection of the strict loader, otherwise strict accepts a datum lax rejects"""
    d = func_params(lax)[0]
    parents: Dict[int, ast.AST] = {}
    for p in ast.walk(lax):
        for c in ast.iter_child_nodes(p):
            parents[id(c)] = p
    returned = {norm(r.value) for r in ast.walk(lax) if isinstance(r, ast.Return) and isinstance(r.value, ast.Name)}
    ctors: Set[str] = set()
    result_vars: Set[str] = set()
    for n in ast.walk(lax):
        v = None
        if isinstance(n, ast.Return):
            v = n.value
        elif isinstance(n, ast.Assign) and len(n.targets) == 1 and isinstance(n.targets[0], ast.Name) and n.targets[0].id in returned:
            v = n.value
        # the constructed value post-processed before it is handed out: `C(d).method(...)`, `f(C(d))`
        if isinstance(v, ast.Call) and not (len(v.args) == 1 and not v.keywords and norm(v.args[0]) == d):
            inner = [c for c in ast.walk(v) if c is not v and isinstance(c, ast.Call) and len(c.args) == 1 and not c.keywords
                     and norm(c.args[0]) == d]
            if len(inner) == 1:
                # the strict loader: does it hand out the same post-processed form?
                wrapped = norm(v).replace(norm(inner[0]), "CONSTRUCTED")
                sd_ = func_params(strict_fn)[0]
                strict_forms = {norm(r.value).replace(norm(inner[0]).replace(d, sd_), "CONSTRUCTED")
                                for r in ast.walk(strict_fn) if isinstance(r, ast.Return) and r.value is not None}
                res.evaluated(f"scalar:lax-postprocess:{lax.name}", True)
                if wrapped not in strict_forms:
                    res.add(Finding("C07", "SCALAR.lax-transforms-result", m.rel, lax.name, norm(v)[:100],
                                    f"the lax loader of {target} hands out `{norm(v)[:80]}` -- the constructed value after a further "
                                    f"transformation -- while the strict loader `{strict_fn.name}` hands out the value itself: a datum both "
                                    "modes accept loads to DIFFERENT values (lax is no longer strict plus extra accepted inputs)",
                                    v.lineno))
                ctors.add(norm(inner[0].func))
                continue
        if isinstance(v, ast.Call) and len(v.args) == 1 and not v.keywords and norm(v.args[0]) == d:
            ctors.add(norm(v.func))
            if isinstance(n, ast.Assign):
                result_vars.add(n.targets[0].id)
    if len(ctors) != 1:
        return None
    ctor = next(iter(ctors))
    # every application of the constructor receives the datum ITSELF: a rewritten datum (`C(data.translate(...))`, `C(repr(data))`)
    # is loaded to another value than the strict loader's C(data), or refused where strict accepts ("inf" -> "jnf")
    for c in ast.walk(lax):
        if isinstance(c, ast.Call) and norm(c.func) == ctor and len(c.args) == 1 and norm(c.args[0]) != d \
                and any(isinstance(x, ast.Name) and x.id == d for x in ast.walk(c.args[0])):
            res.evaluated(f"scalar:lax-datum:{lax.name}", True)
            res.add(Finding("C07", "SCALAR.lax-datum-rewritten", m.rel, lax.name, norm(c)[:100],
                            f"the lax loader of {target} applies the constructor to `{norm(c.args[0])[:60]}`, not to the datum: strict mode "
                            f"hands `{ctor}(data)` out for the same datum, so the two modes load different values or lax refuses what "
                            "strict accepts", c.lineno))

    def canon(test: ast.expr, dn: str, rvars: Set[str]) -> str:
        t = norm(test)
        t = re.sub(rf"\b{re.escape(dn)}\b", "DATUM", t)
        for rv in rvars:
            t = re.sub(rf"\b{re.escape(rv)}\b", f"{ctor}(DATUM)", t)
        return t
    sd = func_params(strict_fn)[0]
    strict_tests = {canon(n.test, sd, set()) for n in ast.walk(strict_fn) if isinstance(n, ast.If) and _reject_only(n.body)}
    for r in [x for x in ast.walk(lax) if isinstance(x, ast.Raise)]:
        p = parents.get(id(r))
        in_handler = False
        guard: Optional[ast.If] = None
        while p is not None and p is not lax:
            if isinstance(p, ast.ExceptHandler):
                in_handler = True
            if isinstance(p, ast.If) and guard is None:
                guard = p
            p = parents.get(id(p))
        if in_handler:
            continue
        res.evaluated(f"scalar:lax-rejection:{lax.name}:{norm(guard.test) if guard else 'unconditional'}", True)
        if guard is None:
            continue     # unconditional raise at the end: reached only when no path accepted
        t = canon(guard.test, d, result_vars)
        if t not in strict_tests:
            res.add(Finding("C07", "SCALAR.lax-rejects-more", m.rel, lax.name, norm(guard.test),
                            f"the lax loader of {target} rejects when `{norm(guard.test)}` (outside the handlers of its "
                            f"constructor call) but the strict loader `{strict_fn.name}` has no such rejection: a datum of the "
                            "exact target type that strict mode accepts is refused by the lax mode", guard.lineno))
    # a conditional return of the constructed value is a rejection under the negated test (`if ok(v): return v` ... raise)
    all_strict_tests = {canon(n.test, sd, set()) for n in ast.walk(strict_fn) if isinstance(n, ast.If)}
    for r in [x for x in ast.walk(lax) if isinstance(x, ast.Return) and x.value is not None]:
        if not (norm(r.value) in result_vars or (isinstance(r.value, ast.Call) and norm(r.value.func) == ctor)):
            continue
        p = parents.get(id(r))
        in_handler = False
        guards: List[ast.If] = []
        while p is not None and p is not lax:
            if isinstance(p, ast.ExceptHandler):
                in_handler = True
            if isinstance(p, ast.If):
                guards.append(p)
            p = parents.get(id(p))
        if in_handler:
            continue
        for g in guards:
            if not any(isinstance(x, ast.Name) and x.id in result_vars for x in ast.walk(g.test)):
                continue     # dispatch on the datum before construction, not a validation of the result
            res.evaluated(f"scalar:lax-conditional-accept:{lax.name}:{norm(g.test)}", True)
            t = canon(g.test, d, result_vars)
            if t not in all_strict_tests:
                res.add(Finding("C07", "SCALAR.lax-rejects-more", m.rel, lax.name, norm(g.test),
                                f"the lax loader of {target} returns the constructed value only when `{norm(g.test)}` holds, but the "
                                f"strict loader `{strict_fn.name}` has no such condition: a datum of the exact target type that "
                                "strict mode accepts is refused by the lax mode", g.lineno))
    return ctor


def scalar_pairs(repo: Repo, R: Resolver, res: CheckResult) -> None:
    m = repo.mod("morphing/concrete_provider")
    pairs: List[Tuple[str, ast.expr, ast.expr, int]] = []
    for node in ast.walk(m.tree):
        if isinstance(node, ast.Call) and norm(node.func) == "ScalarProvider":
            kw = {k.arg: k.value for k in node.keywords}
            if "strict_coercion_loader" in kw and "lax_coercion_loader" in kw:
                pairs.append((norm(kw.get("target", ast.Constant("?"))), kw["strict_coercion_loader"],
                              kw["lax_coercion_loader"], node.lineno))
    # LiteralStringProvider: `str_strict_coercion_loader if strict_coercion else str`
    ls = m.classes.get("LiteralStringProvider")
    if ls is not None:
        pl = ls.methods.get("provide_loader", ast.Pass())
        fl = {"strict_coercion"} | {a.targets[0].id for a in ast.walk(pl) if isinstance(a, ast.Assign)
                                    and isinstance(a.targets[0], ast.Name) and "StrictCoercionRequest" in norm(a.value)}
        for r in ast.walk(pl):
            if isinstance(r, ast.IfExp) and norm(r.test) in fl:
                pairs.append(("LiteralString", r.body, r.orelse, r.lineno))
    n = 0
    for target, se, le, line in pairs:
        sr = repo.resolve_expr_static(m, se) if isinstance(se, (ast.Name, ast.Attribute)) else None
        lr = repo.resolve_expr_static(m, le) if isinstance(le, (ast.Name, ast.Attribute)) else None
        if sr is None or sr.kind != "func":
            raise AnalysisError(f"ScalarProvider({target}): strict loader `{norm(se)}` is not a repo function")
        strict_fn: ast.FunctionDef = sr.node
        # constructor applied by the lax loader
        if lr is not None and lr.kind == "ext":
            lax_ctor = lr.name.split(".")[-1]
        elif lr is not None and lr.kind == "func":
            lax_ctor = _lax_constructor(m, lr.node, strict_fn, target, res)
            if lax_ctor is None:
                raise AnalysisError(f"lax loader {norm(le)}: cannot identify its constructor")
        else:
            raise AnalysisError(f"ScalarProvider({target}): cannot resolve lax loader `{norm(le)}`")
        d = func_params(strict_fn)[0]
        # accepting paths of the strict loader
        for r in [x for x in ast.walk(strict_fn) if isinstance(x, ast.Return)]:
            n += 1
            res.evaluated(f"scalar:{strict_fn.name}:{norm(r)}", True)
            guard = _dominating_type_guard(m, r, d)
            v = r.value
            qual = strict_fn.name
            if guard is None:
                res.add(Finding("C07", "SCALAR.unguarded-accept", m.rel, qual, norm(r),
                                "an accepting path of a strict scalar loader is not dominated by an exact type test "
                                "(`type(data) is T` / `type(data) in (...)`): values of other types (bool for int, "
                                "subclasses) are accepted under strict coercion", r.lineno))
                continue
            if isinstance(v, ast.Name) and v.id == d:
                fixed = FIXED_POINTS.get(lax_ctor)
                if fixed is None or not guard <= fixed:
                    res.add(Finding("C07", "SCALAR.not-a-fixed-point", m.rel, qual, f"{norm(r)} under {sorted(guard)}",
                                    f"the strict loader returns the datum itself for types {sorted(guard)} while the lax "
                                    f"loader applies {lax_ctor}(): for these types {lax_ctor}(x) is not x of the same type, "
                                    "so the two modes load different values", r.lineno))
            elif isinstance(v, ast.Call) and len(v.args) == 1 and norm(v.args[0]) == d:
                if norm(v.func) != lax_ctor:
                    res.add(Finding("C07", "SCALAR.different-constructor", m.rel, qual, norm(r),
                                    f"strict path applies {norm(v.func)}() but the lax loader applies {lax_ctor}()", r.lineno))
            else:
                res.add(Finding("C07", "SCALAR.transformed-value", m.rel, qual, norm(r),
                                "an accepting path of a strict scalar loader returns something else than the datum or the "
                                "lax constructor applied to the datum (e.g. a normalised copy): strict and lax load "
                                "different values for the same accepted datum", r.lineno))
            res.sample({"strict_loader": qual, "path": norm(r), "guard": sorted(guard), "lax_constructor": lax_ctor}, limit=12)
    res.count("SCALAR.pairs", len(pairs), 8)
    res.count("SCALAR.accepting-paths", n, 9)


def _dominating_type_guard(m: ModuleInfo, node: ast.AST, d: str) -> Optional[Set[str]]:
    p = m.parent(node)
    child: ast.AST = node
    while p is not None and not isinstance(p, ast.FunctionDef):
        if isinstance(p, ast.If) and any(child is s for s in p.body):
            t = p.test
            if isinstance(t, ast.Compare) and len(t.ops) == 1 and norm(t.left) == f"type({d})":
                r = t.comparators[0]
                if isinstance(t.ops[0], (ast.Is, ast.Eq)):
                    return {norm(r)}
                if isinstance(t.ops[0], ast.In) and isinstance(r, (ast.Tuple, ast.List, ast.Set)):
                    return {norm(x) for x in r.elts}
        child = p
        p = m.parent(p)
    return None


# ------------------------------------------------------------------------------------------ literal
def literal_rule(repo: Repo, res: CheckResult) -> None:
    m = repo.mod("morphing/generic_provider")
    ci = m.classes.get("LiteralProvider")
    if ci is None or "_make_loader" not in ci.methods:
        raise AnalysisError("anchor vanished: LiteralProvider._make_loader")
    fn = ci.methods["_make_loader"]
    res.evaluated("literal:typed-membership-condition", True)
    ifs = [n for n in fn.body if isinstance(n, ast.If) and "strict_coercion" in norm(n.test)]
    ok = False
    for n in ifs:
        t = n.test
        if not (isinstance(t, ast.BoolOp) and isinstance(t.op, ast.And) and len(t.values) == 2 and norm(t.values[0]) == "strict_coercion"):
            continue
        a = t.values[1]
        if not (isinstance(a, ast.Call) and norm(a.func) == "any" and a.args and isinstance(a.args[0], (ast.GeneratorExp, ast.ListComp))):
            continue
        g = a.args[0]
        v = norm(g.generators[0].target)
        conds = {norm(x) for x in (g.elt.values if isinstance(g.elt, ast.BoolOp) and isinstance(g.elt.op, ast.Or) else [g.elt])}
        if conds != {f"isinstance({v}, bool)", f"_is_exact_zero_or_one({v})"} or g.generators[0].ifs:
            continue
        # the branch builds the typed loader: a closure testing (type(d), d) membership
        for x in n.body:
            if isinstance(x, ast.FunctionDef) and x.args.args:
                d = x.args.args[0].arg
                if any(isinstance(c, ast.Compare) and isinstance(c.ops[0], ast.In) and norm(c.left).replace(" ", "") == f"(type({d}),{d})"
                       for c in ast.walk(x)):
                    ok = True
    if not ok:
        res.add(Finding("C07", "DOC.literal-typed-membership", m.rel, "LiteralProvider._make_loader",
                        "; ".join(norm(n.test) for n in ifs) or "no strict branch",
                        "under strict coercion a Literal with a bool or an exact 0/1 case must test (type(data), data) "
                        "membership: otherwise True is accepted for Literal[1] (bool where an int literal is required)",
                        fn.lineno))
    # the typed loader must also be *selected* per Literal: the per-retort cache key of the loader factory has to tell
    # Literal[0, 1] from Literal[False, True] (shared rule with C11, typed-equality taint over norm.args)
    from .c11 import ted_cache_keys
    sub = CheckResult("C11")
    ted_cache_keys(repo, sub)
    res.evaluated("literal:cache-key-typed", True)
    for f in sub.findings:
        if "provide_loader" not in f.qualname:
            continue
        res.add(Finding("C07", "DOC.literal-loader-shared-across-types", f.file, f.qualname, f.construct,
                        "the loader factory of Literal is cached under a key that compares the cases by ==: after a loader "
                        "for Literal[False, True] exists, Literal[0, 1] receives it and strict mode accepts a bool where an "
                        "int Literal is required (" + f.message[:160] + ")", f.line))
    z = m.functions.get("_is_exact_zero_or_one")
    res.evaluated("literal:zero-or-one", True)
    if z is None or "type(arg) is int" not in norm(z) or "(0, 1)" not in norm(z):
        res.add(Finding("C07", "DOC.literal-typed-membership", m.rel, "_is_exact_zero_or_one", norm(z)[:120] if z else "missing",
                        "exact 0/1 detection changed", z.lineno if z else fn.lineno))
