"""CLI:  check <Cxx> [--tier quick|thorough] [--repo PATH] [--replay FILE]

exit 0  property held on everything analysed (KNOWN-FINDING lines possible)
exit 1  VIOLATION property=<id> replay=<path>  for every violation not listed as known
exit 2  ANALYSIS-ERROR ...  vanished anchor / unparseable construct / instance count below floor / traceback
"""
from __future__ import annotations

import argparse
import importlib
import json
import os
import sys
import time
import traceback
from pathlib import Path

from .core import AnalysisError, CheckResult, Repo, load_known_findings, match_known, write_evidence, write_replay

PROPS = [f"C{n:02d}" for n in range(1, 21)]


def run_property(pid: str, repo_root: Path, tier: str, seed: int, quiet: bool = False, write: bool = True):
    """Returns (exit_code, findings, result). Never raises."""
    t0 = time.time()
    out = []

    def say(s: str) -> None:
        out.append(s)
        if not quiet:
            print(s, flush=True)

    try:
        mod = importlib.import_module(f"sa.props.{pid.lower()}")
    except ModuleNotFoundError:
        say(f"ANALYSIS-ERROR property={pid} no check implemented")
        return 2, [], None, out
    res = CheckResult(property=pid, level=getattr(mod, "LEVEL", "other"))
    try:
        repo = Repo(repo_root)
        mod.run(repo, tier, res, seed)
        # fail closed on instance floors -- unless a violation was found anyway (a positive report stands on its own)
        for rule, (n, floor) in res.counts.items():
            if n < floor:
                floor_msg = f"rule {rule} matched {n} instances, fewer than the confirmed floor {floor}"
                known0 = load_known_findings()
                if any(match_known(f, known0) is None for f in res.findings):
                    say(f"  warning: {floor_msg}")
                else:
                    raise AnalysisError(floor_msg)
    except AnalysisError as e:
        # a positive report stands on its own: when a violation had already been found before a later rule lost its anchor,
        # the violation is reported (exit 1) and the analysis error becomes a warning
        known0 = load_known_findings()
        if not any(match_known(f, known0) is None for f in res.findings):
            say(f"ANALYSIS-ERROR property={pid} {e}")
            return 2, [], res, out
        say(f"  warning: analysis incomplete after the violation(s) below: {e}")
    except Exception as e:  # noqa: BLE001
        tb = traceback.format_exc()
        say(f"ANALYSIS-ERROR property={pid} internal error: {e!r}")
        for line in tb.splitlines()[-12:]:
            say("  | " + line)
        return 2, [], res, out

    known = load_known_findings()
    new = []
    n_known = 0
    for f in res.findings:
        k = match_known(f, known)
        if k is not None:
            n_known += 1
            say(f"KNOWN-FINDING: property={pid} {k.get('what', f.message)} [{f.rule} @ {f.where()}]")
        else:
            new.append(f)
    for rule, (n, floor) in sorted(res.counts.items()):
        say(f"  analysed {rule}: {n} instances (floor {floor})")
    for note in res.notes[:30]:
        say(f"  note: {note}")
    code = 0
    for f in new:
        rp = write_replay(f, repo_root) if write else Path("-")
        say(f"VIOLATION property={pid} replay={rp}")
        say(f"  rule={f.rule} at {f.where()}")
        say(f"  construct: {f.construct[:300]}")
        say(f"  why: {f.message}")
        code = 1
    wall = time.time() - t0
    if write:
        write_evidence(
            res, tier, seed, wall, len(new),
            explanation=getattr(mod, "EXPLANATION", ""),
            rule=getattr(mod, "RULE", ""),
            exhaustive=bool(getattr(mod, "EXHAUSTIVE", False)),
        )
    say(f"{pid} [{tier}] {'OK' if code == 0 else 'VIOLATED'}: {res.evaluations} rule evaluations, "
        f"{len(res.nontrivial)} distinct sites, {len(new)} violation(s), {n_known} known finding(s), {wall:.2f}s")
    return code, new, res, out


def main(argv=None) -> int:
    ap = argparse.ArgumentParser(prog="check")
    ap.add_argument("prop")
    ap.add_argument("--tier", default=os.environ.get("VERIF_TIER", "quick"), choices=["quick", "thorough"])
    ap.add_argument("--repo", default=os.environ.get("VERIF_REPO", "/repo"))
    ap.add_argument("--replay", default=None)
    ap.add_argument("--jobs", type=int, default=16)
    ap.add_argument("--filter", default=None)
    ap.add_argument("--no-write", action="store_true")
    args = ap.parse_args(argv)
    seed = int(os.environ.get("VERIF_SEED", "0") or 0)

    if args.prop == "selftest":
        from . import selftest
        return selftest.main(args)

    if args.replay:
        data = json.loads(Path(args.replay).read_text())
        pid = data["property"]
        code, new, res, _ = run_property(pid, Path(args.repo), "thorough", seed, quiet=True, write=False)
        hit = [f for f in new if f.key == data["key"]]
        if hit:
            f = hit[0]
            print(f"REPRODUCED property={pid} rule={f.rule} at {f.where()}\n  construct: {f.construct}\n  why: {f.message}")
            return 1
        print(f"NOT-REPRODUCED property={pid} key={data['key']} (check exit {code})")
        return 0 if code == 0 else code

    pid = args.prop.upper()
    if pid not in PROPS:
        print(f"ANALYSIS-ERROR unknown property {pid}")
        return 2
    code, _, _, _ = run_property(pid, Path(args.repo), args.tier, seed, write=not args.no_write)
    return code


if __name__ == "__main__":
    try:
        rc = main()
    except SystemExit:
        raise
    except BaseException as e:  # noqa: BLE001
        print(f"ANALYSIS-ERROR top-level: {e!r}")
        traceback.print_exc()
        rc = 2
    sys.stdout.flush()
    sys.exit(rc)
