"""Path enumeration over the structured statement tree of a small function.

A path is a list of (kind, node) steps:  ('stmt', stmt) for simple statements, ('test', expr, bool) for branch decisions,
('enter-handler', handler), ('loop', for_node, n_iter).  Loops are unrolled 0 and 1 times (2 on request).  Each path
ends with ('return', node) / ('raise', node) / ('fall', None) / ('continue', node) / ('break', node).
Functions in this code base are small (< 60 statements); the enumeration is capped.
"""
from __future__ import annotations

import ast
from typing import Iterator, List, Sequence, Tuple

from .core import AnalysisError

Step = Tuple
MAX_PATHS = 20000


def enumerate_paths(body: Sequence[ast.stmt], loop_unroll: Tuple[int, ...] = (0, 1)) -> List[List[Step]]:
    out: List[List[Step]] = []
    for path, term in _block(list(body), loop_unroll):
        out.append(path + [term])
        if len(out) > MAX_PATHS:
            raise AnalysisError("path explosion")
    return out


def _block(stmts: List[ast.stmt], unroll) -> Iterator[Tuple[List[Step], Step]]:
    if not stmts:
        yield [], ("fall", None)
        return
    first, rest = stmts[0], stmts[1:]
    for p1, t1 in _stmt(first, unroll):
        if t1[0] != "fall":
            yield p1, t1
            continue
        for p2, t2 in _block(rest, unroll):
            yield p1 + p2, t2


def _stmt(st: ast.stmt, unroll) -> Iterator[Tuple[List[Step], Step]]:
    if isinstance(st, ast.Return):
        yield [("stmt", st)], ("return", st)
    elif isinstance(st, ast.Raise):
        yield [("stmt", st)], ("raise", st)
    elif isinstance(st, ast.Continue):
        yield [], ("continue", st)
    elif isinstance(st, ast.Break):
        yield [], ("break", st)
    elif isinstance(st, ast.If):
        for p, t in _block(st.body, unroll):
            yield [("test", st.test, True)] + p, t
        for p, t in _block(st.orelse, unroll):
            yield [("test", st.test, False)] + p, t
    elif isinstance(st, (ast.For, ast.While)):
        for n in unroll:
            if n == 0:
                for p, t in _block(st.orelse, unroll):
                    yield [("loop", st, 0)] + p, t
                continue
            # n iterations of the body
            def iterate(k):
                if k == 0:
                    yield [], ("fall", None)
                    return
                for p, t in _block(st.body, unroll):
                    if t[0] in ("fall", "continue"):
                        for p2, t2 in iterate(k - 1):
                            yield p + p2, t2
                    elif t[0] == "break":
                        yield p, ("fall-break", None)
                    else:
                        yield p, t
            for p, t in iterate(n):
                if t[0] == "fall":
                    for p2, t2 in _block(st.orelse, unroll):
                        yield [("loop", st, n)] + p + p2, t2
                elif t[0] == "fall-break":
                    yield [("loop", st, n)] + p, ("fall", None)
                else:
                    yield [("loop", st, n)] + p, t
    elif isinstance(st, ast.Try):
        # body completes
        for p, t in _block(st.body, unroll):
            if t[0] == "fall":
                for p2, t2 in _block(st.orelse, unroll):
                    for p3, t3 in _finally(st, p + p2, t2, unroll):
                        yield p3, t3
            else:
                for p3, t3 in _finally(st, p, t, unroll):
                    yield p3, t3
        # an exception in the body reaches a handler: over-approximate by "after any prefix of the body"
        for h in st.handlers:
            for k in range(len(st.body) + 1):
                prefix: List[Step] = []
                ok = True
                for s in st.body[:k]:
                    if isinstance(s, (ast.If, ast.For, ast.While, ast.Try, ast.With)):
                        ok = False
                        break
                    prefix.append(("stmt", s))
                if not ok:
                    continue
                if k < len(st.body):
                    prefix = prefix + [("raising", st.body[k])]
                else:
                    continue
                for p, t in _block(h.body, unroll):
                    for p3, t3 in _finally(st, prefix + [("enter-handler", h)] + p, t, unroll):
                        yield p3, t3
    elif isinstance(st, (ast.With, ast.AsyncWith)):
        for p, t in _block(st.body, unroll):
            yield [("with", st)] + p, t
    else:
        yield [("stmt", st)], ("fall", None)


def _finally(st: ast.Try, p, t, unroll):
    if not st.finalbody:
        yield p, t
        return
    for pf, tf in _block(st.finalbody, unroll):
        if tf[0] == "fall":
            yield p + pf, t
        else:
            yield p + pf, tf


def calls_in(node: ast.AST) -> List[ast.Call]:
    return [n for n in ast.walk(node) if isinstance(n, ast.Call)]


def step_nodes(path: List[Step]) -> List[ast.AST]:
    out = []
    for s in path:
        if s[0] in ("stmt", "raising"):
            out.append(s[1])
        elif s[0] == "test":
            out.append(s[1])
        elif s[0] == "loop":
            out.append(s[1].iter if isinstance(s[1], ast.For) else s[1].test)
        elif s[0] == "with":
            for it in s[1].items:
                out.append(it.context_expr)
    return out
