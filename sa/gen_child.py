"""Tier G child process.  Runs ONLY the repository's code generators (produce_code / literal renderers) on an
enumerated family of plain-data shapes / crowns / plans and prints the emitted source text as JSON lines.

The emitted closures are never compiled here, never called; no loader, dumper or converter runs on any datum.
Executed by /venv/bin/python with PYTHONPATH=<repo>/src so that a scratch copy of the repository can be audited.
"""
from __future__ import annotations

import itertools
import json
import sys
import traceback
from types import MappingProxyType


def jdefault(o):
    return repr(o)


def emit(rec):
    sys.stdout.write(json.dumps(rec, default=jdefault) + "\n")


# ----------------------------------------------------------------------------------------------------------------
# descriptions of python objects placed into namespaces (never executed by the parent; matched by tag)

TAGS = {}


def tag(obj, name):
    TAGS[id(obj)] = name
    return obj


_KEEP = []


def describe(obj):
    d = {"type": type(obj).__module__ + "." + type(obj).__qualname__}
    if id(obj) in TAGS:
        d["tag"] = TAGS[id(obj)]
    try:
        r = repr(obj)
    except Exception as e:  # pragma: no cover
        r = f"<repr failed {e!r}>"
    d["repr"] = r[:200]
    if isinstance(obj, (set, frozenset)):
        try:
            d["items"] = sorted(obj, key=repr)
        except Exception:
            pass
    if isinstance(obj, type):
        d["class"] = obj.__module__ + "." + obj.__qualname__
    if callable(obj) and hasattr(obj, "__name__"):
        d["callable"] = getattr(obj, "__module__", "?") + "." + obj.__name__
    return d


# ----------------------------------------------------------------------------------------------------------------
# model loader / dumper family

def loader_family(tier, seed):
    from adaptix._internal.definitions import DebugTrail
    from adaptix._internal.model_tools.definitions import (
        DefaultFactory, DefaultValue, InputField, InputShape, NoDefault, Param, ParamKind, ParamKwargs,
    )
    from adaptix._internal.morphing.model.basic_gen import get_skipped_fields
    from adaptix._internal.morphing.model.crown_definitions import (
        ExtraCollect, ExtraForbid, ExtraKwargs, ExtraSaturate, ExtraSkip, ExtraTargets, InpDictCrown, InpFieldCrown,
        InpListCrown, InpNoneCrown, InputNameLayout,
    )
    from adaptix._internal.morphing.model.loader_gen import BuiltinModelLoaderGen, ModelLoaderProps
    from adaptix._internal.special_cases_optimization import as_is_stub

    def constructor(*a, **kw):  # never called
        raise AssertionError

    def saturator(obj, extra):  # never called
        raise AssertionError

    tag(constructor, "constructor")
    tag(saturator, "saturator")
    tag(as_is_stub, "as_is_stub")

    class Obj:
        def __repr__(self):
            return "<Obj>"

    def custom_factory():
        # a correct generator never calls the factory; one that does (hoisting) gets a tagged result
        return ["factory-result"]
    tag(custom_factory, "factory:custom")

    # field kinds: name -> (is_required, default maker)
    def mk_default(kind, fid):
        if kind in ("R", "O"):
            return NoDefault()
        if kind == "DV":
            return DefaultValue(7)
        if kind == "DVN":
            return DefaultValue(None)
        if kind == "DVO":
            o = Obj()
            _KEEP.append(o)
            tag(o, f"default:{fid}")
            return DefaultValue(o)
        if kind == "DF":
            return DefaultFactory(list)
        if kind == "DFO":
            return DefaultFactory(custom_factory)
        raise ValueError(kind)

    PK = {"P": ParamKind.POS_ONLY, "K": ParamKind.POS_OR_KW, "W": ParamKind.KW_ONLY}

    def make_shape(spec, kwargs=False):
        """spec: list of (id, kind, paramkind, param_name)"""
        fields = []
        params = []
        for fid, kind, pk, pname in spec:
            fields.append(InputField(
                id=fid, type=int, default=mk_default(kind, fid), is_required=(kind == "R"),
                metadata=MappingProxyType({}), original=None,
            ))
            params.append(Param(field_id=fid, name=pname, kind=PK[pk]))
        return InputShape(
            fields=tuple(fields), params=tuple(params), kwargs=ParamKwargs(type=int) if kwargs else None,
            constructor=constructor, overriden_types=frozenset(),
        )

    POL = {"skip": ExtraSkip(), "forbid": ExtraForbid(), "collect": ExtraCollect()}

    def build_crown(c):
        t = c["t"]
        if t == "dict":
            return InpDictCrown({k: build_crown(v) for k, v in c["map"].items()}, extra_policy=POL[c["extra"]])
        if t == "list":
            return InpListCrown([build_crown(v) for v in c["map"]], extra_policy=POL[c["extra"]])
        if t == "field":
            return InpFieldCrown(c["id"])
        if t == "none":
            return InpNoneCrown()
        raise ValueError(t)

    def F(i):
        return {"t": "field", "id": i}

    NONE = {"t": "none"}

    def D(m, extra="skip"):
        return {"t": "dict", "map": m, "extra": extra}

    def L(m, extra="skip"):
        return {"t": "list", "map": m, "extra": extra}

    # --- shape specs
    shape_specs = {
        "r1": [("a", "R", "K", "a")],
        "r2": [("a", "R", "K", "a"), ("b", "R", "K", "b")],
        "rp": [("a", "R", "P", "a"), ("b", "R", "K", "b"), ("c", "R", "W", "c")],
        "r_dv": [("a", "R", "K", "a"), ("b", "DV", "K", "b")],
        "r_dvn": [("a", "R", "K", "a"), ("b", "DVN", "K", "b")],
        "r_dvo": [("a", "R", "K", "a"), ("b", "DVO", "K", "b")],
        "r_df": [("a", "R", "K", "a"), ("b", "DF", "K", "b")],
        "r_dfo": [("a", "R", "K", "a"), ("b", "DFO", "K", "b")],
        "r_o": [("a", "R", "K", "a"), ("b", "O", "K", "b")],
        "r_o_w": [("a", "R", "K", "a"), ("b", "O", "W", "b_param")],
        "r_dv_r": [("a", "R", "K", "a"), ("b", "DV", "K", "b"), ("c", "R", "W", "c")],
        "p_k_dv_w": [("a", "R", "P", "a"), ("b", "R", "K", "b"), ("c", "DV", "K", "c"), ("d", "DVO", "W", "d")],
        "renamed": [("a", "R", "K", "a_param"), ("b", "DV", "W", "b_param")],
        "three": [("a", "R", "K", "a"), ("b", "R", "K", "b"), ("c", "DV", "K", "c")],
        "r_dv_dv": [("a", "R", "K", "a"), ("b", "DV", "K", "b"), ("c", "DVN", "K", "c")],
        "dv_only": [("a", "DV", "K", "a")],     # with crown skip_opt: a model whose only field is skipped (empty root crown)
    }
    # crowns for 1..3 fields named a,b,c(,d)
    def crowns_for(ids, opt_ids):
        """yield (name, crown json); optional fields may not sit in list crowns"""
        ids = list(ids)
        out = []
        flat = D({f"k_{i}": F(i) for i in ids})
        out.append(("flat", flat))
        out.append(("flat_renamed", D({f"{i}-key": F(i) for i in ids})))
        if len(ids) >= 2:
            out.append(("nested2", D({f"k_{ids[0]}": F(ids[0]), "n": D({f"k_{i}": F(i) for i in ids[1:]})})))
            out.append(("nested3", D({"n": D({"m": D({f"k_{ids[0]}": F(ids[0])}), **{f"k_{i}": F(i) for i in ids[1:]}})})))
            out.append(("two_branches", D({"x": D({f"k_{ids[0]}": F(ids[0])}), "y": D({f"k_{i}": F(i) for i in ids[1:]})})))
        if not (set(ids) & set(opt_ids)):
            out.append(("list", L([F(i) for i in ids])))
            out.append(("list_gap", L([F(ids[0]), NONE] + [F(i) for i in ids[1:]])))
            out.append(("list_in_dict", D({"l": L([F(i) for i in ids])})))
            out.append(("dict_in_list", L([D({f"k_{i}": F(i) for i in ids}), NONE])))
        else:
            req = [i for i in ids if i not in opt_ids]
            opt = [i for i in ids if i in opt_ids]
            if req:
                out.append(("list_req_dict_opt", D({"l": L([F(i) for i in req]), **{f"k_{i}": F(i) for i in opt}})))
                out.append(("dict_in_list_opt", L([D({f"k_{i}": F(i) for i in opt}), *[F(i) for i in req]])))
            # skipped optional field
            if opt:
                out.append(("skip_opt", D({f"k_{i}": F(i) for i in ids if i != opt[0]})))
        out.append(("with_none", D({**{f"k_{i}": F(i) for i in ids}, "unused": NONE})))
        return out

    def set_policy(c, pol_dict, pol_list):
        if c["t"] == "dict":
            return {"t": "dict", "map": {k: set_policy(v, pol_dict, pol_list) for k, v in c["map"].items()}, "extra": pol_dict}
        if c["t"] == "list":
            return {"t": "list", "map": [set_policy(v, pol_dict, pol_list) for v in c["map"]], "extra": pol_list}
        return c

    modes = [(dt, sc) for dt in (DebugTrail.DISABLE, DebugTrail.FIRST, DebugTrail.ALL) for sc in (True, False)]
    quick = tier == "quick"
    count = 0
    for sname, spec in shape_specs.items():
        ids = [s[0] for s in spec]
        opt_ids = [s[0] for s in spec if s[1] != "R"]
        for cname, crown0 in crowns_for(ids, opt_ids):
            pol_variants = [("skip", "skip", None), ("forbid", "forbid", None), ("collect", "skip", "kwargs"),
                            ("collect", "forbid", "saturate"), ("skip", "skip", "kwargs")]
            if quick:
                # keep the quick family small but covering: every crown kind; policies and modes on a subset
                if sname not in ("r2", "r_dv", "r_dvn", "r_o", "p_k_dv_w", "r_dvo", "r_dfo", "renamed", "r_dv_dv", "dv_only"):
                    continue
                if sname == "dv_only":
                    if cname != "skip_opt":
                        continue
                elif sname not in ("r2", "r_o"):
                    pol_variants = pol_variants[:1] if cname != "flat" else pol_variants[:3]
                elif cname not in ("flat", "nested2", "list", "dict_in_list", "list_req_dict_opt"):
                    pol_variants = pol_variants[:1]
            for pd, pl, move in pol_variants:
                crown_j = set_policy(crown0, pd, pl)
                if move == "kwargs":
                    extra_move = ExtraKwargs()
                elif move == "saturate":
                    extra_move = ExtraSaturate(saturator)
                else:
                    extra_move = None
                mode_list = modes
                if quick and (sname not in ("r2", "r_o") or cname not in ("flat", "nested2", "list", "list_req_dict_opt")):
                    mode_list = [m for m in modes if m[1]]  # strict only
                for dt, sc in mode_list:
                    try:
                        shape = make_shape(spec, kwargs=(move == "kwargs"))
                        crown = build_crown(crown_j)
                        layout = InputNameLayout(crown=crown, extra_move=extra_move)
                        loaders = {}
                        for i, fid in enumerate(ids):
                            if i == len(ids) - 1 and len(ids) > 1 and sname in ("r2", "three"):
                                loaders[fid] = as_is_stub
                            else:
                                def ld(data):  # never called
                                    raise AssertionError
                                tag(ld, f"loader:{fid}")
                                _KEEP.append(ld)
                                loaders[fid] = ld
                        skipped = get_skipped_fields(shape, layout)
                        gen = BuiltinModelLoaderGen(
                            shape=shape, name_layout=layout, debug_trail=dt, strict_coercion=sc,
                            field_loaders=loaders, skipped_fields=skipped, model_identity="Model",
                            props=ModelLoaderProps(),
                        )
                        src, ns = gen.produce_code("model_loader")
                    except Exception as e:
                        emit({"kind": "loader", "error": f"{type(e).__name__}: {e}", "shape": sname, "crown": cname,
                              "trace": traceback.format_exc()[-600:]})
                        continue
                    count += 1
                    emit({
                        "kind": "loader",
                        "shape_name": sname, "crown_name": cname,
                        "fields": [{"id": s[0], "kind": s[1], "param_kind": s[2], "param": s[3]} for s in spec],
                        "crown": crown_j, "extra_move": move, "debug_trail": dt.name, "strict": sc,
                        "skipped": sorted(skipped),
                        "as_is": sorted(k for k, v in loaders.items() if v is as_is_stub),
                        "source": src, "origins": take_origins(src),
                        "namespace": {k: describe(v) for k, v in ns.items()},
                    })
        # ExtraTargets: one more field `e` that receives the extras
        if sname in ("r_dv",) or not quick:
            for tkind in ("R", "DF"):
                spec2 = spec + [("e", tkind, "W", "e")]
                for pd in ("collect", "skip"):
                    for dt, sc in (modes if not quick else [m for m in modes if m[1]]):
                        crown_j = D({f"k_{i}": F(i) for i in ids}, pd)
                        try:
                            shape = make_shape(spec2)
                            layout = InputNameLayout(crown=build_crown(crown_j), extra_move=ExtraTargets(("e",)))
                            loaders = {}
                            for fid in ids + ["e"]:
                                def ld(data):
                                    raise AssertionError
                                tag(ld, f"loader:{fid}")
                                _KEEP.append(ld)
                                loaders[fid] = ld
                            skipped = get_skipped_fields(shape, layout)
                            gen = BuiltinModelLoaderGen(
                                shape=shape, name_layout=layout, debug_trail=dt, strict_coercion=sc,
                                field_loaders=loaders, skipped_fields=skipped, model_identity="Model",
                                props=ModelLoaderProps(),
                            )
                            src, ns = gen.produce_code("model_loader")
                        except Exception as e:
                            emit({"kind": "loader", "error": f"{type(e).__name__}: {e}", "shape": sname,
                                  "crown": "targets", "trace": traceback.format_exc()[-600:]})
                            continue
                        emit({
                            "kind": "loader", "shape_name": sname + "+e" + tkind, "crown_name": "flat_targets",
                            "fields": [{"id": s[0], "kind": s[1], "param_kind": s[2], "param": s[3]} for s in spec2],
                            "crown": crown_j, "extra_move": "targets:e", "debug_trail": dt.name, "strict": sc,
                            "skipped": sorted(skipped), "as_is": [], "source": src, "origins": take_origins(src),
                            "namespace": {k: describe(v) for k, v in ns.items()},
                        })


def dumper_family(tier, seed):
    from adaptix._internal.definitions import DebugTrail
    from adaptix._internal.model_tools.definitions import (
        DefaultFactory, DefaultValue, NoDefault, OutputField, OutputShape, create_attr_accessor, create_key_accessor,
    )
    from adaptix._internal.morphing.model.crown_definitions import (
        ExtraExtract, ExtraTargets, OutDictCrown, OutFieldCrown, OutListCrown, OutNoneCrown, OutputNameLayout,
    )
    from adaptix._internal.morphing.model.dumper_gen import BuiltinModelDumperGen
    from adaptix._internal.special_cases_optimization import as_is_stub, with_default_clause

    class Obj:
        def __repr__(self):
            return "<Obj>"

    def extractor(obj):
        raise AssertionError
    tag(extractor, "extractor")
    tag(as_is_stub, "as_is_stub")

    def mk_field(fid, kind):
        # kind: R (required attr), O (optional attr), RI (required item), OI (optional item)
        if kind in ("R", "O"):
            acc = create_attr_accessor(fid, is_required=(kind == "R"))
        else:
            acc = create_key_accessor(fid, access_error=None if kind == "RI" else KeyError)
        return OutputField(id=fid, type=int, default=NoDefault(), metadata=MappingProxyType({}), original=None,
                           accessor=acc)

    def mk_sieve(kind, fid):
        def sieve(obj, value):
            raise AssertionError
        _KEEP.append(sieve)
        tag(sieve, f"sieve:{fid}")
        if kind == "custom":
            return sieve
        if kind == "dv":
            return with_default_clause(DefaultValue(7), sieve)
        if kind == "dvn":
            return with_default_clause(DefaultValue(None), sieve)
        if kind == "dvo":
            o = Obj()
            _KEEP.append(o)
            tag(o, f"sievedefault:{fid}")
            return with_default_clause(DefaultValue(o), sieve)
        if kind == "df":
            return with_default_clause(DefaultFactory(list), sieve)
        raise ValueError(kind)

    def build(c):
        t = c["t"]
        if t == "dict":
            return OutDictCrown({k: build(v) for k, v in c["map"].items()},
                                sieves={k: mk_sieve(sk, k) for k, sk in c.get("sieves", {}).items()})
        if t == "list":
            return OutListCrown([build(v) for v in c["map"]])
        if t == "field":
            return OutFieldCrown(c["id"])
        if t == "none":
            if c.get("ph") == "factory":
                return OutNoneCrown(placeholder=DefaultFactory(list))
            return OutNoneCrown(placeholder=DefaultValue(None))
        raise ValueError(t)

    def F(i):
        return {"t": "field", "id": i}

    def D(m, sieves=None):
        d = {"t": "dict", "map": m}
        if sieves:
            d["sieves"] = sieves
        return d

    def L(m):
        return {"t": "list", "map": m}

    NONE = {"t": "none"}
    NONEF = {"t": "none", "ph": "factory"}
    shapes = {
        "r1": [("a", "R")],
        "r2": [("a", "R"), ("b", "R")],
        "r_o": [("a", "R"), ("b", "O")],
        "ri_oi": [("a", "RI"), ("b", "OI")],
        "r3": [("a", "R"), ("b", "R"), ("c", "R")],
    }
    modes = [DebugTrail.DISABLE, DebugTrail.FIRST, DebugTrail.ALL]
    for sname, spec in shapes.items():
        ids = [s[0] for s in spec]
        opt = [s[0] for s in spec if s[1] in ("O", "OI")]
        crowns = [("flat", D({f"k_{i}": F(i) for i in ids}))]
        crowns.append(("flat_sieved", D({f"k_{i}": F(i) for i in ids}, sieves={f"k_{ids[-1]}": "dv"})))
        crowns.append(("flat_sieved_none", D({f"k_{i}": F(i) for i in ids}, sieves={f"k_{ids[0]}": "dvn"})))
        crowns.append(("flat_sieved_obj", D({f"k_{i}": F(i) for i in ids}, sieves={f"k_{ids[0]}": "dvo"})))
        crowns.append(("flat_sieved_custom", D({f"k_{i}": F(i) for i in ids}, sieves={f"k_{ids[0]}": "custom"})))
        crowns.append(("flat_sieved_factory", D({f"k_{i}": F(i) for i in ids}, sieves={f"k_{ids[-1]}": "df"})))
        if len(ids) >= 2:
            crowns.append(("nested2", D({f"k_{ids[0]}": F(ids[0]), "n": D({f"k_{i}": F(i) for i in ids[1:]})})))
            crowns.append(("nested3", D({"n": D({"m": D({f"k_{ids[0]}": F(ids[0])}), **{f"k_{i}": F(i) for i in ids[1:]}})})))
            crowns.append(("nested_sieved", D({f"k_{ids[0]}": F(ids[0]), "n": D({f"k_{i}": F(i) for i in ids[1:]},
                                                                                sieves={f"k_{ids[1]}": "dv"})})))
        if not opt:
            crowns.append(("list", L([F(i) for i in ids])))
            crowns.append(("list_gap", L([F(ids[0]), NONE, NONEF] + [F(i) for i in ids[1:]])))
            crowns.append(("list_in_dict", D({"l": L([F(i) for i in ids]), "u": NONE})))
            crowns.append(("dict_in_list", L([D({f"k_{i}": F(i) for i in ids}), NONE])))
        else:
            crowns.append(("skip_opt", D({f"k_{i}": F(i) for i in ids if i not in opt})))
        for cname, cj in crowns:
            for move in (None, "extract", "targets", "targets2", "targets2o"):
                if move in ("targets", "targets2", "targets2o") and cname not in ("flat", "nested2"):
                    continue
                for dt in modes:
                    try:
                        fields = [mk_field(i, k) for i, k in spec]
                        extra_move = None
                        if move == "extract":
                            extra_move = ExtraExtract(extractor)
                        elif move == "targets":
                            fields.append(mk_field("e", "R"))
                            extra_move = ExtraTargets(("e",))
                        elif move in ("targets2", "targets2o"):
                            fields.append(mk_field("e", "R"))
                            fields.append(mk_field("e2", "R" if move == "targets2" else "O"))
                            extra_move = ExtraTargets(("e", "e2"))
                        shape = OutputShape(fields=tuple(fields), overriden_types=frozenset())
                        layout = OutputNameLayout(crown=build(cj), extra_move=extra_move)
                        dumpers = {}
                        for n, f in enumerate(fields):
                            if n == 0 and sname == "r2":
                                dumpers[f.id] = as_is_stub
                                continue

                            def dp(data):
                                raise AssertionError
                            tag(dp, f"dumper:{f.id}")
                            _KEEP.append(dp)
                            dumpers[f.id] = dp
                        gen = BuiltinModelDumperGen(shape=shape, name_layout=layout, debug_trail=dt,
                                                    fields_dumpers=dumpers, model_identity="Model")
                        src, ns = gen.produce_code("model_dumper")
                    except Exception as e:
                        emit({"kind": "dumper", "error": f"{type(e).__name__}: {e}", "shape": sname, "crown": cname,
                              "trace": traceback.format_exc()[-600:]})
                        continue
                    emit({
                        "kind": "dumper", "shape_name": sname, "crown_name": cname,
                        "fields": [{"id": f.id, "kind": k} for f, k in zip(fields, [s[1] for s in spec] + ["R", "O" if move == "targets2o" else "R"])],
                        "crown": cj, "extra_move": move, "debug_trail": dt.name,
                        "as_is": sorted(k for k, v in dumpers.items() if v is as_is_stub),
                        "source": src, "origins": take_origins(src),
                        "namespace": {k: describe(v) for k, v in ns.items()},
                    })


# ----------------------------------------------------------------------------------------------------------------
# literal renderers (C08/C13): run get_literal_expr / get_literal_from_factory on a family of values

def literal_family(tier, seed):
    import enum
    from decimal import Decimal
    from fractions import Fraction

    from adaptix._internal.code_tools.utils import get_literal_expr, get_literal_from_factory, is_singleton

    class IE(enum.IntEnum):
        ONE = 1
        ZERO = 0

    class E(enum.Enum):
        A = 1

    class SubInt(int):
        pass

    class SubStr(str):
        pass

    class SubTuple(tuple):
        pass

    values = [
        0, 1, -1, 2, True, False, None, Ellipsis, NotImplemented, "", "a", "quo'te\"\\\n", b"", b"x", bytearray(b"x"),
        0.0, -0.0, 1.0, 1.5, float("inf"), float("nan"), 1e300,
        Decimal("1"), Decimal("0"), Fraction(1), Fraction(0), 1 + 0j, 0j, IE.ONE, IE.ZERO, E.A, SubInt(1), SubInt(0),
        SubStr("x"), SubTuple((1, 2)),
        (), (1,), (1, 2), ((1,),), [(1,)], [], [1], [1, "a"], [[1], [2]], [Decimal("1")], (True, 1, 1.0),
        set(), {1}, {1, 2}, {1, "a"}, frozenset(), frozenset({1}), frozenset({1, 2}), {(1,)},
        {}, {"a": 1}, {1: (2,)}, {"a": [1, {"b": (3,)}]}, {True: 1},
        slice(1, 10, 2), slice(None), slice(1, 5), range(3), range(1, 10, 2), range(0, 5),
        len, int, print, object, type(None),
    ]
    for v in values:
        try:
            expr = get_literal_expr(v)
            err = None
        except Exception as e:
            expr, err = None, f"{type(e).__name__}: {e}"
        emit({"kind": "literal", "value_type": type(v).__module__ + "." + type(v).__qualname__,
              "value_repr": repr(v), "expr": expr, "error": err, "probe": encode_value(v)})
    for v in [[], {}, (), [1], 0, None, True, IE.ONE, E.A, Decimal("1"), "x", Ellipsis, NotImplemented, 1.0]:
        try:
            s = is_singleton(v)
            err = None
        except Exception as e:
            s, err = None, f"{type(e).__name__}: {e}"
        emit({"kind": "singleton", "value_type": type(v).__module__ + "." + type(v).__qualname__,
              "value_repr": repr(v), "result": s, "error": err})
    for f in [list, dict, tuple, str, bytes, type(None), set, int, float, bool, frozenset, bytearray, len, [], Decimal]:
        try:
            expr = get_literal_from_factory(f)
            err = None
        except Exception as e:
            expr, err = None, f"{type(e).__name__}: {e}"
        fname = getattr(f, "__qualname__", None)
        emit({"kind": "factory_literal", "factory": (f.__module__ + "." + fname) if fname else repr(f),
              "expr": expr, "error": err})


def encode_value(v):
    """Structural description of a value (type-exact) the parent compares with the parsed literal."""
    import enum
    t = type(v)
    name = t.__module__ + "." + t.__qualname__
    if v is None or v is Ellipsis or v is NotImplemented:
        return {"t": name, "singleton": repr(v)}
    if t in (bool, int, str):
        return {"t": name, "v": v}
    if t is float:
        return {"t": name, "v": repr(v)}
    if t is complex:
        return {"t": name, "v": repr(v)}
    if t in (bytes, bytearray):
        return {"t": name, "v": list(v)}
    if t in (tuple, list):
        return {"t": name, "items": [encode_value(x) for x in v]}
    if t in (set, frozenset):
        return {"t": name, "set": sorted((encode_value(x) for x in v), key=lambda d: json.dumps(d, sort_keys=True))}
    if t is dict:
        return {"t": name, "pairs": [[encode_value(k), encode_value(x)] for k, x in v.items()]}
    if t is slice or t is range:
        return {"t": name, "start": encode_value(v.start), "stop": encode_value(v.stop), "step": encode_value(v.step)}
    if isinstance(v, type) or callable(v):
        import builtins
        n = getattr(v, "__name__", None)
        if n and getattr(builtins, n, None) is v:
            return {"t": name, "builtin": n}
    return {"t": name, "opaque": repr(v)}


# ----------------------------------------------------------------------------------------------------------------
# line provenance: which generator function emitted each line (instrumentation lives in this child only)

LAST_ORIGINS = []


class OLine(str):
    __slots__ = ("origin",)


def install_line_provenance():
    try:
        from adaptix._internal.code_tools import code_builder as cb
    except Exception:  # pragma: no cover
        return False
    CB = cb.CodeBuilder
    if not all(hasattr(CB, n) for n in ("_add_indented_lines", "_include_line", "string", "_lines")) and \
            not hasattr(CB, "__slots__"):
        return False

    def caller_origin():
        f = sys._getframe(2)
        while f is not None:
            fn = f.f_code.co_filename
            if not fn.endswith("code_builder.py") and "contextlib" not in fn and not fn.endswith("gen_child.py"):
                base = fn.replace("\\", "/")
                idx = base.find("adaptix/")
                return f"{base[idx:] if idx >= 0 else base}:{f.f_code.co_name}:{f.f_lineno}"
            f = f.f_back
        return None

    def wrap(text, origin):
        o = OLine(text)
        o.origin = origin
        return o

    def _add_indented_lines(self, lines):
        origin = caller_origin()
        indent = " " * self._current_indent
        self._lines.extend(
            wrap(indent + line if self._current_indent else line, getattr(line, "origin", None) or origin)
            for line in lines
        )

    def _include_line(self, line):
        origin = caller_origin()
        if self._lines:
            last = self._lines[-1]
            self._lines[-1] = wrap(last + line, getattr(last, "origin", None) or origin)
        else:
            self._lines.append(wrap(line, getattr(line, "origin", None) or origin))

    orig_string = CB.string

    def string(self):
        LAST_ORIGINS[:] = [getattr(l, "origin", None) for l in self._lines]
        return orig_string(self)

    CB._add_indented_lines = _add_indented_lines
    CB._include_line = _include_line
    CB.string = string
    return True


def take_origins(src):
    """origins of the lines of the most recently rendered builder, if they match `src`"""
    if len(LAST_ORIGINS) == len(src.split("\n")):
        return list(LAST_ORIGINS)
    return None


def hostile_family(tier, seed):
    """field ids that coincide with template identifiers / builtins / non-ASCII, keys with quotes, backslashes,
    newlines, braces, dollars and code fragments"""
    from adaptix._internal.definitions import DebugTrail
    from adaptix._internal.model_tools.definitions import (
        DefaultValue, InputField, InputShape, NoDefault, OutputField, OutputShape, Param, ParamKind, create_attr_accessor,
        create_key_accessor,
    )
    from adaptix._internal.morphing.model.basic_gen import get_skipped_fields
    from adaptix._internal.morphing.model.crown_definitions import (
        ExtraCollect, ExtraForbid, ExtraKwargs, ExtraSkip, InpDictCrown, InpFieldCrown, InpListCrown, InputNameLayout,
        OutDictCrown, OutFieldCrown, OutListCrown, OutputNameLayout,
    )
    from adaptix._internal.morphing.model.dumper_gen import BuiltinModelDumperGen
    from adaptix._internal.morphing.model.loader_gen import BuiltinModelLoaderGen, ModelLoaderProps
    from adaptix._internal.special_cases_optimization import with_default_clause

    def constructor(*a, **kw):
        raise AssertionError
    tag(constructor, "constructor")
    ID_SETS = [
        ["data", "errors", "value"], ["getter", "sentinel", "constructor"], ["result", "extra", "key"],
        ["known_keys", "has_unexpected_error", "e"], ["class_", "\u0438\u043c\u044f", "loader_a"], ["packed_fields", "opt_fields", "f_a"],
        ["append_trail", "TypeLoadError", "len"], ["model_identity", "required_keys", "set"],
    ]
    KEY_SETS = [
        ["quo'te", 'dq"uote', "back\\slash"], ["new\nline", "{brace}", "$dollar"], ["#hash", "'); import os #", "x\\"],
        ["\r\n", "tab\t", "{0}{1}"], ["%s", "\u00e9\u00e8", ""],
    ]
    POL = {"skip": ExtraSkip(), "forbid": ExtraForbid(), "collect": ExtraCollect()}
    modes = [(dt, sc) for dt in (DebugTrail.DISABLE, DebugTrail.FIRST, DebugTrail.ALL) for sc in (True,)]
    combos = [(ids, keys) for ids in ID_SETS for keys in KEY_SETS[:2]] + [(ID_SETS[0], keys) for keys in KEY_SETS[2:]]
    for ids, keys in combos:
        kinds = ["R", "DV", "O"]
        spec = [(fid, k, "W" if k == "O" else "K", fid) for fid, k in zip(ids, kinds)]
        for cname, pol in (("flat", "forbid"), ("nested", "collect"), ("list", "skip")):
            if cname == "flat":
                cj = {"t": "dict", "map": {k: {"t": "field", "id": i} for k, i in zip(keys, ids)}, "extra": pol}
            elif cname == "nested":
                cj = {"t": "dict", "map": {keys[0]: {"t": "field", "id": ids[0]},
                                           keys[1]: {"t": "dict", "map": {keys[2]: {"t": "field", "id": ids[1]},
                                                                         keys[0]: {"t": "field", "id": ids[2]}}, "extra": pol}},
                      "extra": pol}
            else:
                cj = {"t": "dict", "map": {keys[0]: {"t": "list", "map": [{"t": "field", "id": ids[0]}], "extra": "skip"},
                                           keys[1]: {"t": "field", "id": ids[1]}, keys[2]: {"t": "field", "id": ids[2]}},
                      "extra": "skip"}

            def build(c):
                if c["t"] == "dict":
                    return InpDictCrown({k: build(v) for k, v in c["map"].items()}, extra_policy=POL[c["extra"]])
                if c["t"] == "list":
                    return InpListCrown([build(v) for v in c["map"]], extra_policy=POL[c["extra"]])
                return InpFieldCrown(c["id"])

            def build_out(c):
                if c["t"] == "dict":
                    return OutDictCrown({k: build_out(v) for k, v in c["map"].items()}, sieves={})
                if c["t"] == "list":
                    return OutListCrown([build_out(v) for v in c["map"]])
                return OutFieldCrown(c["id"])
            move = "kwargs" if pol == "collect" else None
            for dt, sc in modes:
                # loader
                try:
                    fields, params = [], []
                    for fid, k, pk, pname in spec:
                        fields.append(InputField(id=fid, type=int, default=DefaultValue(7) if k == "DV" else NoDefault(),
                                                 is_required=(k == "R"), metadata=MappingProxyType({}), original=None))
                        params.append(Param(field_id=fid, name=pname, kind=ParamKind.KW_ONLY if pk == "W" else ParamKind.POS_OR_KW))
                    from adaptix._internal.model_tools.definitions import ParamKwargs
                    shape = InputShape(fields=tuple(fields), params=tuple(params), kwargs=ParamKwargs(int) if move else None,
                                       constructor=constructor, overriden_types=frozenset())
                    layout = InputNameLayout(crown=build(cj), extra_move=ExtraKwargs() if move else None)
                    loaders = {}
                    for fid in ids:
                        def ld(data):
                            raise AssertionError
                        tag(ld, f"loader:{fid}")
                        _KEEP.append(ld)
                        loaders[fid] = ld
                    gen = BuiltinModelLoaderGen(shape=shape, name_layout=layout, debug_trail=dt, strict_coercion=sc,
                                                field_loaders=loaders, skipped_fields=get_skipped_fields(shape, layout),
                                                model_identity="Model", props=ModelLoaderProps())
                    src, ns = gen.produce_code("model_loader")
                    emit({"kind": "loader", "shape_name": "hostile:" + ",".join(ids), "crown_name": cname,
                          "fields": [{"id": s[0], "kind": s[1], "param_kind": s[2], "param": s[3]} for s in spec],
                          "crown": cj, "extra_move": move, "debug_trail": dt.name, "strict": sc, "skipped": [], "as_is": [],
                          "source": src, "origins": take_origins(src), "namespace": {k: describe(v) for k, v in ns.items()}})
                except Exception as e:
                    emit({"kind": "loader", "error": f"{type(e).__name__}: {e}", "shape_name": "hostile:" + ",".join(ids),
                          "crown_name": cname, "debug_trail": dt.name, "trace": traceback.format_exc()[-500:]})
                # dumper
                try:
                    ofields = []
                    for fid, k, pk, pname in spec:
                        acc = create_attr_accessor(fid, is_required=(k != "O"))
                        ofields.append(OutputField(id=fid, type=int, default=NoDefault(), metadata=MappingProxyType({}),
                                                   original=None, accessor=acc))
                    oshape = OutputShape(fields=tuple(ofields), overriden_types=frozenset())
                    ocj = json.loads(json.dumps(cj))
                    olayout = OutputNameLayout(crown=build_out(ocj), extra_move=None)
                    dumpers = {}
                    for fid in ids:
                        def dp(data):
                            raise AssertionError
                        tag(dp, f"dumper:{fid}")
                        _KEEP.append(dp)
                        dumpers[fid] = dp
                    gen = BuiltinModelDumperGen(shape=oshape, name_layout=olayout, debug_trail=dt, fields_dumpers=dumpers,
                                                model_identity="Model")
                    src, ns = gen.produce_code("model_dumper")
                    emit({"kind": "dumper", "shape_name": "hostile:" + ",".join(ids), "crown_name": cname,
                          "fields": [{"id": s[0], "kind": {"R": "R", "DV": "R", "O": "O"}[s[1]]} for s in spec],
                          "crown": ocj, "extra_move": None, "debug_trail": dt.name, "as_is": [],
                          "source": src, "origins": take_origins(src), "namespace": {k: describe(v) for k, v in ns.items()}})
                except Exception as e:
                    emit({"kind": "dumper", "error": f"{type(e).__name__}: {e}", "shape_name": "hostile:" + ",".join(ids),
                          "crown_name": cname, "debug_trail": dt.name, "trace": traceback.format_exc()[-500:]})


FAMILIES = {"loader": loader_family, "dumper": dumper_family, "literal": literal_family, "hostile": hostile_family}


def main():
    tier = sys.argv[1]
    seed = int(sys.argv[2])
    kinds = sys.argv[3].split(",")
    import adaptix
    prov = install_line_provenance()
    emit({"kind": "meta", "adaptix_file": adaptix.__file__, "provenance": prov})
    for k in kinds:
        if k in FAMILIES:
            FAMILIES[k](tier, seed)
        else:
            mod = __import__("gen_child_conv")
            getattr(mod, k + "_family")(tier, seed, emit, tag, describe, _KEEP)
    emit({"kind": "done"})


if __name__ == "__main__":
    try:
        main()
    except Exception as e:  # noqa: BLE001
        emit({"kind": "fatal", "error": f"{type(e).__name__}: {e}", "trace": traceback.format_exc()[-1500:]})
        sys.exit(3)
