"""Tier G child process.  Runs ONLY the repository's code generators (produce_code / literal renderers) on an
enumerated family of plain-data shapes / crowns / plans and prints the emitted source text as JSON lines.

The emitted closures are never compiled here, never called; no loader, dumper or converter runs on any datum.
Executed by /venv/bin/python with PYTHONPATH=<repo>/src so that a scratch copy of the repository can be audited.
"""
from __future__ import annotations

import itertools
import json
import sys
import traceback
from types import MappingProxyType


def jdefault(o):
    return repr(o)


def emit(rec):
    sys.stdout.write(json.dumps(rec, default=jdefault) + "\n")


# ----------------------------------------------------------------------------------------------------------------
# descriptions of python objects placed into namespaces (never executed by the parent; matched by tag)

TAGS = {}


def tag(obj, name):
    TAGS[id(obj)] = name
    return obj


_KEEP = []


def describe(obj):
    d = {"type": type(obj).__module__ + "." + type(obj).__qualname__}
    if id(obj) in TAGS:
        d["tag"] = TAGS[id(obj)]
    try:
        r = repr(obj)
    except Exception as e:  # pragma: no cover
        r = f"<repr failed {e!r}>"
    d["repr"] = r[:200]
    if isinstance(obj, (set, frozenset)):
        try:
            d["items"] = sorted(obj, key=repr)
        except Exception:
            pass
    if isinstance(obj, type):
        d["class"] = obj.__module__ + "." + obj.__qualname__
    if callable(obj) and hasattr(obj, "__name__"):
        d["callable"] = str(getattr(obj, "__module__", "?")) + "." + str(obj.__name__)
    return d


def capture_stage(src, ns, closure_name):
    """Run the last compilation stage (compile_closure_with_globals_capturing) with a recording compiler: which namespace
    names are inlined as literals and which are passed as globals, and whether each global IS the registered object."""
    from adaptix._internal.morphing.model.basic_gen import compile_closure_with_globals_capturing
    seen = {}

    class Recorder:
        def compile(self, base_filename, filename_maker, builder, namespace):
            seen["text"] = builder.string()
            seen["globals"] = dict(namespace)
            return None

    hook_seen = {}

    def hook(data):
        hook_seen["source"] = data.source
    compile_closure_with_globals_capturing(compiler=Recorder(), code_gen_hook=hook, namespace=ns, closure_name=closure_name,
                                           closure_code=src, file_name="f")
    out = []
    text = seen.get("text", "")
    head = text.split("\n\n", 1)[0] if "\n\n" in text else text
    binds = {}
    for line in head.split("\n"):
        if " = " in line and not line.startswith((" ", "def ")):
            n, e = line.split(" = ", 1)
            binds[n] = e
    for name, value in ns.items():
        e = binds.get(name)
        rec = {"name": name, "expr": e, "probe": encode_value(value), "tag": TAGS.get(id(value))}
        if e is not None and e in seen.get("globals", {}):
            rec["mode"] = "global"
            rec["same_object"] = seen["globals"][e] is value
            rec["bound_type"] = type(seen["globals"][e]).__module__ + "." + type(seen["globals"][e]).__qualname__
        elif e is not None:
            rec["mode"] = "literal"
        else:
            rec["mode"] = "missing"
        out.append(rec)
    return out


# ----------------------------------------------------------------------------------------------------------------
# model loader / dumper family

def loader_family(tier, seed):
    from adaptix._internal.definitions import DebugTrail
    from adaptix._internal.model_tools.definitions import (
        DefaultFactory, DefaultValue, InputField, InputShape, NoDefault, Param, ParamKind, ParamKwargs,
    )
    from adaptix._internal.morphing.model.basic_gen import get_skipped_fields
    from adaptix._internal.morphing.model.crown_definitions import (
        ExtraCollect, ExtraForbid, ExtraKwargs, ExtraSaturate, ExtraSkip, ExtraTargets, InpDictCrown, InpFieldCrown,
        InpListCrown, InpNoneCrown, InputNameLayout,
    )
    from adaptix._internal.morphing.model.loader_gen import BuiltinModelLoaderGen, ModelLoaderProps
    from adaptix._internal.special_cases_optimization import as_is_stub

    def constructor(*a, **kw):  # never called
        raise AssertionError

    def saturator(obj, extra):  # never called
        raise AssertionError

    tag(constructor, "constructor")
    tag(saturator, "saturator")
    tag(as_is_stub, "as_is_stub")

    class Obj:
        def __repr__(self):
            return "<Obj>"

    def custom_factory():
        # a correct generator never calls the factory; one that does (hoisting) gets a tagged result
        return ["factory-result"]
    tag(custom_factory, "factory:custom")

    def immutable_factory():
        # impure factories may return immutable values (counter, timestamp): the result must never be inlined
        return ("factory-result", 1)
    tag(immutable_factory, "factory:immutable")

    # field kinds: name -> (is_required, default maker)
    def mk_default(kind, fid):
        if kind in ("R", "O"):
            return NoDefault()
        if kind == "DV":
            return DefaultValue(7)
        if kind == "DVN":
            return DefaultValue(None)
        if kind == "DVO":
            o = Obj()
            _KEEP.append(o)
            tag(o, f"default:{fid}")
            return DefaultValue(o)
        if kind == "DF":
            return DefaultFactory(list)
        if kind == "DFO":
            return DefaultFactory(custom_factory)
        if kind == "DFI":
            return DefaultFactory(immutable_factory)
        if kind == "DVM":
            # a mutable default VALUE with nested mutable containers, literal leaves only (plain class / NamedTuple / attrs):
            # every level has to be rebuilt on each load
            o = [[0, 0], {"k": []}]
            _KEEP.append(o)
            tag(o, f"default:{fid}")
            return DefaultValue(o)
        if kind == "DVE":
            # two defaults that compare equal but are different objects of different types (capture stage must keep both)
            from decimal import Decimal
            from fractions import Fraction
            o = Fraction(2) if fid.endswith("b") else Decimal(2)
            _KEEP.append(o)
            tag(o, f"default:{fid}")
            return DefaultValue(o)
        raise ValueError(kind)

    PK = {"P": ParamKind.POS_ONLY, "K": ParamKind.POS_OR_KW, "W": ParamKind.KW_ONLY}

    def make_shape(spec, kwargs=False):
        """spec: list of (id, kind, paramkind, param_name)"""
        fields = []
        params = []
        for fid, kind, pk, pname in spec:
            fields.append(InputField(
                id=fid, type=int, default=mk_default(kind, fid), is_required=(kind == "R"),
                metadata=MappingProxyType({}), original=None,
            ))
            params.append(Param(field_id=fid, name=pname, kind=PK[pk]))
        return InputShape(
            fields=tuple(fields), params=tuple(params), kwargs=ParamKwargs(type=int) if kwargs else None,
            constructor=constructor, overriden_types=frozenset(),
        )

    POL = {"skip": ExtraSkip(), "forbid": ExtraForbid(), "collect": ExtraCollect()}

    def build_crown(c):
        t = c["t"]
        if t == "dict":
            return InpDictCrown({k: build_crown(v) for k, v in c["map"].items()}, extra_policy=POL[c["extra"]])
        if t == "list":
            return InpListCrown([build_crown(v) for v in c["map"]], extra_policy=POL[c["extra"]])
        if t == "field":
            return InpFieldCrown(c["id"])
        if t == "none":
            return InpNoneCrown()
        raise ValueError(t)

    def F(i):
        return {"t": "field", "id": i}

    NONE = {"t": "none"}

    def D(m, extra="skip"):
        return {"t": "dict", "map": m, "extra": extra}

    def L(m, extra="skip"):
        return {"t": "list", "map": m, "extra": extra}

    # --- shape specs
    shape_specs = {
        "r1": [("a", "R", "K", "a")],
        "r2": [("a", "R", "K", "a"), ("b", "R", "K", "b")],
        "rp": [("a", "R", "P", "a"), ("b", "R", "K", "b"), ("c", "R", "W", "c")],
        "r_dv": [("a", "R", "K", "a"), ("b", "DV", "K", "b")],
        "r_dvn": [("a", "R", "K", "a"), ("b", "DVN", "K", "b")],
        "r_dvo": [("a", "R", "K", "a"), ("b", "DVO", "K", "b")],
        "r_df": [("a", "R", "K", "a"), ("b", "DF", "K", "b")],
        "r_dfo": [("a", "R", "K", "a"), ("b", "DFO", "K", "b")],
        "r_o": [("a", "R", "K", "a"), ("b", "O", "K", "b")],
        "r_o_w": [("a", "R", "K", "a"), ("b", "O", "W", "b_param")],
        # the optional key comes FIRST in the crown (a TypedDict lists its keys alphabetically, a keyword-only default may be
        # declared first): no required sibling has tested the datum before it is probed
        "o_r": [("a", "O", "W", "a"), ("b", "R", "W", "b")],
        "r_dv_r": [("a", "R", "K", "a"), ("b", "DV", "K", "b"), ("c", "R", "W", "c")],
        "p_k_dv_w": [("a", "R", "P", "a"), ("b", "R", "K", "b"), ("c", "DV", "K", "c"), ("d", "DVO", "W", "d")],
        "renamed": [("a", "R", "K", "a_param"), ("b", "DV", "W", "b_param")],
        "three": [("a", "R", "K", "a"), ("b", "R", "K", "b"), ("c", "DV", "K", "c")],
        "r_dv_dv": [("a", "R", "K", "a"), ("b", "DV", "K", "b"), ("c", "DVN", "K", "c")],
        "r_dfi": [("a", "R", "K", "a"), ("b", "DFI", "K", "b")],
        "r_dve": [("a", "R", "K", "a"), ("b", "DVE", "K", "b"), ("cb2", "DVE", "K", "cb2"), ("c", "DVE", "K", "c")],
        "r_o_dv": [("a", "R", "K", "a"), ("b", "O", "K", "b"), ("c", "DV", "K", "c")],   # packed field before a positional one
        "r_dvm": [("a", "R", "K", "a"), ("b", "DVM", "K", "b")],
        "dv_only": [("a", "DV", "K", "a")],     # with crown skip_opt: a model whose only field is skipped (empty root crown)
    }
    # crowns for 1..3 fields named a,b,c(,d)
    def crowns_for(ids, opt_ids):
        """yield (name, crown json); optional fields may not sit in list crowns"""
        ids = list(ids)
        out = []
        flat = D({f"k_{i}": F(i) for i in ids})
        out.append(("flat", flat))
        out.append(("flat_renamed", D({f"{i}-key": F(i) for i in ids})))
        if len(ids) >= 2:
            out.append(("nested2", D({f"k_{ids[0]}": F(ids[0]), "n": D({f"k_{i}": F(i) for i in ids[1:]})})))
            out.append(("nested3", D({"n": D({"m": D({f"k_{ids[0]}": F(ids[0])}), **{f"k_{i}": F(i) for i in ids[1:]}})})))
            out.append(("two_branches", D({"x": D({f"k_{ids[0]}": F(ids[0])}), "y": D({f"k_{i}": F(i) for i in ids[1:]})})))
        if not (set(ids) & set(opt_ids)):
            out.append(("list", L([F(i) for i in ids])))
            out.append(("list_gap", L([F(ids[0]), NONE] + [F(i) for i in ids[1:]])))
            out.append(("list_in_dict", D({"l": L([F(i) for i in ids])})))
            out.append(("dict_in_list", L([D({f"k_{i}": F(i) for i in ids}), NONE])))
        else:
            req = [i for i in ids if i not in opt_ids]
            opt = [i for i in ids if i in opt_ids]
            if req:
                out.append(("list_req_dict_opt", D({"l": L([F(i) for i in req]), **{f"k_{i}": F(i) for i in opt}})))
                out.append(("dict_in_list_opt", L([D({f"k_{i}": F(i) for i in opt}), *[F(i) for i in req]])))
            # skipped optional field
            if opt:
                out.append(("skip_opt", D({f"k_{i}": F(i) for i in ids if i != opt[0]})))
        out.append(("with_none", D({**{f"k_{i}": F(i) for i in ids}, "unused": NONE})))
        return out

    def set_policy(c, pol_dict, pol_list):
        if c["t"] == "dict":
            return {"t": "dict", "map": {k: set_policy(v, pol_dict, pol_list) for k, v in c["map"].items()}, "extra": pol_dict}
        if c["t"] == "list":
            return {"t": "list", "map": [set_policy(v, pol_dict, pol_list) for v in c["map"]], "extra": pol_list}
        return c

    modes = [(dt, sc) for dt in (DebugTrail.DISABLE, DebugTrail.FIRST, DebugTrail.ALL) for sc in (True, False)]
    quick = tier == "quick"
    count = 0
    for sname, spec in shape_specs.items():
        ids = [s[0] for s in spec]
        opt_ids = [s[0] for s in spec if s[1] != "R"]
        for cname, crown0 in crowns_for(ids, opt_ids):
            pol_variants = [("skip", "skip", None), ("forbid", "forbid", None), ("collect", "skip", "kwargs"),
                            ("collect", "forbid", "saturate"), ("skip", "skip", "kwargs")]
            if quick:
                # keep the quick family small but covering: every crown kind; policies and modes on a subset
                if sname not in ("r2", "r_dv", "r_dvn", "r_o", "p_k_dv_w", "r_dvo", "r_dfo", "renamed", "r_dv_dv", "dv_only", "r_dfi",
                                 "r_dve", "r_o_dv", "r_dvm", "o_r"):
                    continue
                if sname == "dv_only":
                    if cname != "skip_opt":
                        continue
                elif sname not in ("r2", "r_o"):
                    pol_variants = pol_variants[:1] if cname != "flat" else pol_variants[:3]
                elif cname not in ("flat", "nested2", "list", "dict_in_list", "list_req_dict_opt"):
                    pol_variants = pol_variants[:1]
            for pd, pl, move in pol_variants:
                crown_j = set_policy(crown0, pd, pl)
                if move == "kwargs":
                    extra_move = ExtraKwargs()
                elif move == "saturate":
                    extra_move = ExtraSaturate(saturator)
                else:
                    extra_move = None
                mode_list = modes
                if quick and (sname not in ("r2", "r_o") or cname not in ("flat", "nested2", "list", "list_req_dict_opt")):
                    mode_list = [m for m in modes if m[1]]  # strict only
                for dt, sc in mode_list:
                    try:
                        shape = make_shape(spec, kwargs=(move == "kwargs"))
                        crown = build_crown(crown_j)
                        layout = InputNameLayout(crown=crown, extra_move=extra_move)
                        loaders = {}
                        for i, fid in enumerate(ids):
                            if i == len(ids) - 1 and len(ids) > 1 and sname in ("r2", "three"):
                                loaders[fid] = as_is_stub
                            else:
                                def ld(data):  # never called
                                    raise AssertionError
                                tag(ld, f"loader:{fid}")
                                _KEEP.append(ld)
                                loaders[fid] = ld
                        skipped = get_skipped_fields(shape, layout)
                        gen = BuiltinModelLoaderGen(
                            shape=shape, name_layout=layout, debug_trail=dt, strict_coercion=sc,
                            field_loaders=loaders, skipped_fields=skipped, model_identity="Model",
                            props=ModelLoaderProps(),
                        )
                        src, ns = gen.produce_code("model_loader")
                        origins = take_origins(src)
                        capture = capture_stage(src, ns, "model_loader")
                    except Exception as e:
                        emit({"kind": "loader", "error": f"{type(e).__name__}: {e}", "shape": sname, "crown": cname,
                              "trace": traceback.format_exc()[-600:]})
                        continue
                    count += 1
                    emit({
                        "kind": "loader",
                        "shape_name": sname, "crown_name": cname,
                        "fields": [{"id": s[0], "kind": s[1], "param_kind": s[2], "param": s[3]} for s in spec],
                        "crown": crown_j, "extra_move": move, "debug_trail": dt.name, "strict": sc,
                        "skipped": sorted(skipped),
                        "as_is": sorted(k for k, v in loaders.items() if v is as_is_stub),
                        "source": src, "origins": origins, "capture": capture,
                        "namespace": {k: describe(v) for k, v in ns.items()},
                    })
        # ExtraTargets: one more field `e` that receives the extras
        if sname in ("r_dv",) or not quick:
            for tkind in ("R", "DF"):
                spec2 = spec + [("e", tkind, "W", "e")]
                for pd in ("collect", "skip"):
                    for dt, sc in (modes if not quick else [m for m in modes if m[1]]):
                        crown_j = D({f"k_{i}": F(i) for i in ids}, pd)
                        try:
                            shape = make_shape(spec2)
                            layout = InputNameLayout(crown=build_crown(crown_j), extra_move=ExtraTargets(("e",)))
                            loaders = {}
                            for fid in ids + ["e"]:
                                def ld(data):
                                    raise AssertionError
                                tag(ld, f"loader:{fid}")
                                _KEEP.append(ld)
                                loaders[fid] = ld
                            skipped = get_skipped_fields(shape, layout)
                            gen = BuiltinModelLoaderGen(
                                shape=shape, name_layout=layout, debug_trail=dt, strict_coercion=sc,
                                field_loaders=loaders, skipped_fields=skipped, model_identity="Model",
                                props=ModelLoaderProps(),
                            )
                            src, ns = gen.produce_code("model_loader")
                        except Exception as e:
                            emit({"kind": "loader", "error": f"{type(e).__name__}: {e}", "shape": sname,
                                  "crown": "targets", "trace": traceback.format_exc()[-600:]})
                            continue
                        emit({
                            "kind": "loader", "shape_name": sname + "+e" + tkind, "crown_name": "flat_targets",
                            "fields": [{"id": s[0], "kind": s[1], "param_kind": s[2], "param": s[3]} for s in spec2],
                            "crown": crown_j, "extra_move": "targets:e", "debug_trail": dt.name, "strict": sc,
                            "skipped": sorted(skipped), "as_is": [], "source": src, "origins": take_origins(src),
                            "namespace": {k: describe(v) for k, v in ns.items()},
                        })


def dumper_family(tier, seed):
    from adaptix._internal.definitions import DebugTrail
    from adaptix._internal.model_tools.definitions import (
        DefaultFactory, DefaultValue, NoDefault, OutputField, OutputShape, create_attr_accessor, create_key_accessor,
    )
    from adaptix._internal.morphing.model.crown_definitions import (
        ExtraExtract, ExtraTargets, OutDictCrown, OutFieldCrown, OutListCrown, OutNoneCrown, OutputNameLayout,
    )
    from adaptix._internal.morphing.model.dumper_gen import BuiltinModelDumperGen
    from adaptix._internal.special_cases_optimization import as_is_stub, with_default_clause

    class Obj:
        def __repr__(self):
            return "<Obj>"

    def extractor(obj):
        raise AssertionError
    tag(extractor, "extractor")
    tag(as_is_stub, "as_is_stub")

    def mk_field(fid, kind):
        # kind: R (required attr), O (optional attr), RI (required item), OI (optional item)
        if kind in ("R", "O"):
            acc = create_attr_accessor(fid, is_required=(kind == "R"))
        else:
            acc = create_key_accessor(fid, access_error=None if kind == "RI" else KeyError)
        return OutputField(id=fid, type=int, default=NoDefault(), metadata=MappingProxyType({}), original=None,
                           accessor=acc)

    def mk_sieve(kind, fid):
        def sieve(obj, value):
            raise AssertionError
        _KEEP.append(sieve)
        tag(sieve, f"sieve:{fid}")
        if kind == "custom":
            return sieve
        if kind == "dv":
            return with_default_clause(DefaultValue(7), sieve)
        if kind == "dvn":
            return with_default_clause(DefaultValue(None), sieve)
        if kind == "dvo":
            o = Obj()
            _KEEP.append(o)
            tag(o, f"sievedefault:{fid}")
            return with_default_clause(DefaultValue(o), sieve)
        if kind == "df":
            return with_default_clause(DefaultFactory(list), sieve)
        raise ValueError(kind)

    def build(c):
        t = c["t"]
        if t == "dict":
            return OutDictCrown({k: build(v) for k, v in c["map"].items()},
                                sieves={k: mk_sieve(sk, k) for k, sk in c.get("sieves", {}).items()})
        if t == "list":
            return OutListCrown([build(v) for v in c["map"]])
        if t == "field":
            return OutFieldCrown(c["id"])
        if t == "none":
            if c.get("ph") == "factory":
                return OutNoneCrown(placeholder=DefaultFactory(list))
            return OutNoneCrown(placeholder=DefaultValue(None))
        raise ValueError(t)

    def F(i):
        return {"t": "field", "id": i}

    def D(m, sieves=None):
        d = {"t": "dict", "map": m}
        if sieves:
            d["sieves"] = sieves
        return d

    def L(m):
        return {"t": "list", "map": m}

    NONE = {"t": "none"}
    NONEF = {"t": "none", "ph": "factory"}
    shapes = {
        "r1": [("a", "R")],
        "r2": [("a", "R"), ("b", "R")],
        "r_o": [("a", "R"), ("b", "O")],
        "ri_oi": [("a", "RI"), ("b", "OI")],
        "r3": [("a", "R"), ("b", "R"), ("c", "R")],
    }
    modes = [DebugTrail.DISABLE, DebugTrail.FIRST, DebugTrail.ALL]
    for sname, spec in shapes.items():
        ids = [s[0] for s in spec]
        opt = [s[0] for s in spec if s[1] in ("O", "OI")]
        crowns = [("flat", D({f"k_{i}": F(i) for i in ids}))]
        crowns.append(("flat_sieved", D({f"k_{i}": F(i) for i in ids}, sieves={f"k_{ids[-1]}": "dv"})))
        crowns.append(("flat_sieved_none", D({f"k_{i}": F(i) for i in ids}, sieves={f"k_{ids[0]}": "dvn"})))
        crowns.append(("flat_sieved_obj", D({f"k_{i}": F(i) for i in ids}, sieves={f"k_{ids[0]}": "dvo"})))
        crowns.append(("flat_sieved_custom", D({f"k_{i}": F(i) for i in ids}, sieves={f"k_{ids[0]}": "custom"})))
        crowns.append(("flat_sieved_factory", D({f"k_{i}": F(i) for i in ids}, sieves={f"k_{ids[-1]}": "df"})))
        if len(ids) >= 2:
            crowns.append(("nested2", D({f"k_{ids[0]}": F(ids[0]), "n": D({f"k_{i}": F(i) for i in ids[1:]})})))
            crowns.append(("nested3", D({"n": D({"m": D({f"k_{ids[0]}": F(ids[0])}), **{f"k_{i}": F(i) for i in ids[1:]}})})))
            crowns.append(("nested_sieved", D({f"k_{ids[0]}": F(ids[0]), "n": D({f"k_{i}": F(i) for i in ids[1:]},
                                                                                sieves={f"k_{ids[1]}": "dv"})})))
        if not opt:
            crowns.append(("list", L([F(i) for i in ids])))
            crowns.append(("list_gap", L([F(ids[0]), NONE, NONEF] + [F(i) for i in ids[1:]])))
            crowns.append(("list_in_dict", D({"l": L([F(i) for i in ids]), "u": NONE})))
            crowns.append(("dict_in_list", L([D({f"k_{i}": F(i) for i in ids}), NONE])))
        else:
            crowns.append(("skip_opt", D({f"k_{i}": F(i) for i in ids if i not in opt})))
        for cname, cj in crowns:
            for move in (None, "extract", "targets", "targets2", "targets2o"):
                if move in ("targets", "targets2", "targets2o") and cname not in ("flat", "nested2"):
                    continue
                for dt in modes:
                    try:
                        fields = [mk_field(i, k) for i, k in spec]
                        extra_move = None
                        if move == "extract":
                            extra_move = ExtraExtract(extractor)
                        elif move == "targets":
                            fields.append(mk_field("e", "R"))
                            extra_move = ExtraTargets(("e",))
                        elif move in ("targets2", "targets2o"):
                            fields.append(mk_field("e", "R"))
                            fields.append(mk_field("e2", "R" if move == "targets2" else "O"))
                            extra_move = ExtraTargets(("e", "e2"))
                        shape = OutputShape(fields=tuple(fields), overriden_types=frozenset())
                        layout = OutputNameLayout(crown=build(cj), extra_move=extra_move)
                        dumpers = {}
                        for n, f in enumerate(fields):
                            if n == 0 and sname == "r2":
                                dumpers[f.id] = as_is_stub
                                continue

                            def dp(data):
                                raise AssertionError
                            tag(dp, f"dumper:{f.id}")
                            _KEEP.append(dp)
                            dumpers[f.id] = dp
                        gen = BuiltinModelDumperGen(shape=shape, name_layout=layout, debug_trail=dt,
                                                    fields_dumpers=dumpers, model_identity="Model")
                        src, ns = gen.produce_code("model_dumper")
                    except Exception as e:
                        emit({"kind": "dumper", "error": f"{type(e).__name__}: {e}", "shape": sname, "crown": cname,
                              "trace": traceback.format_exc()[-600:]})
                        continue
                    emit({
                        "kind": "dumper", "shape_name": sname, "crown_name": cname,
                        "fields": [{"id": f.id, "kind": k} for f, k in zip(fields, [s[1] for s in spec] + ["R", "O" if move == "targets2o" else "R"])],
                        "crown": cj, "extra_move": move, "debug_trail": dt.name,
                        "as_is": sorted(k for k, v in dumpers.items() if v is as_is_stub),
                        "source": src, "origins": take_origins(src),
                        "namespace": {k: describe(v) for k, v in ns.items()},
                    })


# ----------------------------------------------------------------------------------------------------------------
# literal renderers (C08/C13): run get_literal_expr / get_literal_from_factory on a family of values

def literal_family(tier, seed):
    import enum
    from decimal import Decimal
    from fractions import Fraction

    from adaptix._internal.code_tools.utils import get_literal_expr, get_literal_from_factory, is_singleton

    class IE(enum.IntEnum):
        ONE = 1
        ZERO = 0

    class E(enum.Enum):
        A = 1

    class SubInt(int):
        pass

    class SubStr(str):
        pass

    class SubTuple(tuple):
        pass

    values = [
        0, 1, -1, 2, True, False, None, Ellipsis, NotImplemented, "", "a", "quo'te\"\\\n", b"", b"x", bytearray(b"x"),
        0.0, -0.0, 1.0, 1.5, float("inf"), float("nan"), 1e300,
        Decimal("1"), Decimal("0"), Fraction(1), Fraction(0), 1 + 0j, 0j, IE.ONE, IE.ZERO, E.A, SubInt(1), SubInt(0),
        SubStr("x"), SubTuple((1, 2)),
        (), (1,), (1, 2), ((1,),), [(1,)], [], [1], [1, "a"], [[1], [2]], [Decimal("1")], (True, 1, 1.0),
        set(), {1}, {1, 2}, {1, "a"}, frozenset(), frozenset({1}), frozenset({1, 2}), {(1,)},
        {}, {"a": 1}, {1: (2,)}, {"a": [1, {"b": (3,)}]}, {True: 1},
        slice(1, 10, 2), slice(None), slice(1, 5), range(3), range(1, 10, 2), range(0, 5),
        slice(1, None), slice(None, None, 2), slice(-3, None, 1), slice(None, 5), slice(None, 5, None), slice(0, None, None),
        range(0), range(5, 0, -1), range(-2, 2),
        len, int, print, object, type(None),
    ]
    # containers that name the same inner object more than once (siblings, not cycles) and deeper nestings
    T = (0, 0)
    E_ = ()
    L = [1]
    values += [
        [T, T], [E_, E_], (T, T), {"a": T, "b": T}, [L, L], {"k": [T, T], "m": (T,)}, [[[[1]]]], [T, [T, (T,)]], {1: L, 2: L},
        [1.5, float("inf")], {"a": Decimal("1")}, [E.A], {IE.ONE},
        # complex numbers: repr() of a non-finite part is a NAME (`(inf+0j)`, `nanj`), never a literal
        complex("inf"), complex("nan"), complex(1, float("nan")), complex(0, float("inf")), complex(1, 2), [complex("inf")],
        # long values (the literal exceeds any plausible length cap): a mutable default must be rebuilt per call however long it is
        [0.0] * 400, {f"key{i}": [i] for i in range(120)}, list(range(600)), {i for i in range(500)},
    ]

    def literal_leaves_only(v):
        t = type(v)
        if t in (int, str, bytes, bool, type(None)):
            return True
        if t is float:
            return v == v and v not in (float("inf"), float("-inf"))
        if t in (list, tuple, set, frozenset):
            return all(literal_leaves_only(x) for x in v)
        if t is dict:
            return all(literal_leaves_only(k) and literal_leaves_only(x) for k, x in v.items())
        if t is bytearray:
            return True
        return False

    for v in values:
        try:
            expr = get_literal_expr(v)
            err = None
        except Exception as e:
            expr, err = None, f"{type(e).__name__}: {e}"
        emit({"kind": "literal", "value_type": type(v).__module__ + "." + type(v).__qualname__,
              "value_repr": repr(v), "expr": expr, "error": err, "probe": encode_value(v),
              "mutable_builtin": type(v) in (list, dict, set, bytearray), "literal_leaves_only": literal_leaves_only(v)})
    for v in [[], {}, (), [1], 0, None, True, IE.ONE, E.A, Decimal("1"), "x", Ellipsis, NotImplemented, 1.0]:
        try:
            s = is_singleton(v)
            err = None
        except Exception as e:
            s, err = None, f"{type(e).__name__}: {e}"
        emit({"kind": "singleton", "value_type": type(v).__module__ + "." + type(v).__qualname__,
              "value_repr": repr(v), "result": s, "error": err})
    for f in [list, dict, tuple, str, bytes, type(None), set, int, float, bool, frozenset, bytearray, len, [], Decimal]:
        try:
            expr = get_literal_from_factory(f)
            err = None
        except Exception as e:
            expr, err = None, f"{type(e).__name__}: {e}"
        fname = getattr(f, "__qualname__", None)
        emit({"kind": "factory_literal", "factory": (f.__module__ + "." + fname) if fname else repr(f),
              "expr": expr, "error": err})


def encode_value(v):
    """Structural description of a value (type-exact) the parent compares with the parsed literal."""
    import enum
    t = type(v)
    name = t.__module__ + "." + t.__qualname__
    if v is None or v is Ellipsis or v is NotImplemented:
        return {"t": name, "singleton": repr(v)}
    if t in (bool, int, str):
        return {"t": name, "v": v}
    if t is float:
        return {"t": name, "v": repr(v)}
    if t is complex:
        return {"t": name, "v": repr(v)}
    if t in (bytes, bytearray):
        return {"t": name, "v": list(v)}
    if t in (tuple, list):
        return {"t": name, "items": [encode_value(x) for x in v]}
    if t in (set, frozenset):
        return {"t": name, "set": sorted((encode_value(x) for x in v), key=lambda d: json.dumps(d, sort_keys=True))}
    if t is dict:
        return {"t": name, "pairs": [[encode_value(k), encode_value(x)] for k, x in v.items()]}
    if t is slice or t is range:
        return {"t": name, "start": encode_value(v.start), "stop": encode_value(v.stop), "step": encode_value(v.step)}
    if isinstance(v, type) or callable(v):
        import builtins
        n = getattr(v, "__name__", None)
        if n and getattr(builtins, n, None) is v:
            return {"t": name, "builtin": n}
    return {"t": name, "opaque": repr(v)}


# ----------------------------------------------------------------------------------------------------------------
# line provenance: which generator function emitted each line (instrumentation lives in this child only)

LAST_ORIGINS = []


class OLine(str):
    __slots__ = ("origin",)


def install_line_provenance():
    try:
        from adaptix._internal.code_tools import code_builder as cb
    except Exception:  # pragma: no cover
        return False
    CB = cb.CodeBuilder
    if not all(hasattr(CB, n) for n in ("_add_indented_lines", "_include_line", "string", "_lines")) and \
            not hasattr(CB, "__slots__"):
        return False

    def caller_origin():
        f = sys._getframe(2)
        while f is not None:
            fn = f.f_code.co_filename
            if not fn.endswith("code_builder.py") and "contextlib" not in fn and not fn.endswith("gen_child.py"):
                base = fn.replace("\\", "/")
                idx = base.find("adaptix/")
                return f"{base[idx:] if idx >= 0 else base}:{f.f_code.co_name}:{f.f_lineno}"
            f = f.f_back
        return None

    def wrap(text, origin):
        o = OLine(text)
        o.origin = origin
        return o

    def _add_indented_lines(self, lines):
        origin = caller_origin()
        indent = " " * self._current_indent
        self._lines.extend(
            wrap(indent + line if self._current_indent else line, getattr(line, "origin", None) or origin)
            for line in lines
        )

    def _include_line(self, line):
        origin = caller_origin()
        if self._lines:
            last = self._lines[-1]
            self._lines[-1] = wrap(last + line, getattr(last, "origin", None) or origin)
        else:
            self._lines.append(wrap(line, getattr(line, "origin", None) or origin))

    orig_string = CB.string

    def string(self):
        LAST_ORIGINS[:] = [getattr(l, "origin", None) for l in self._lines]
        return orig_string(self)

    CB._add_indented_lines = _add_indented_lines
    CB._include_line = _include_line
    CB.string = string
    return True


def take_origins(src):
    """origins of the lines of the most recently rendered builder, if they match `src`"""
    if len(LAST_ORIGINS) == len(src.split("\n")):
        return list(LAST_ORIGINS)
    return None


def hostile_family(tier, seed):
    """field ids that coincide with template identifiers / builtins / non-ASCII, keys with quotes, backslashes,
    newlines, braces, dollars and code fragments"""
    from adaptix._internal.definitions import DebugTrail
    from adaptix._internal.model_tools.definitions import (
        DefaultValue, InputField, InputShape, NoDefault, OutputField, OutputShape, Param, ParamKind, create_attr_accessor,
        create_key_accessor,
    )
    from adaptix._internal.morphing.model.basic_gen import get_skipped_fields
    from adaptix._internal.morphing.model.crown_definitions import (
        ExtraCollect, ExtraForbid, ExtraKwargs, ExtraSkip, InpDictCrown, InpFieldCrown, InpListCrown, InputNameLayout,
        OutDictCrown, OutFieldCrown, OutListCrown, OutputNameLayout,
    )
    from adaptix._internal.morphing.model.dumper_gen import BuiltinModelDumperGen
    from adaptix._internal.morphing.model.loader_gen import BuiltinModelLoaderGen, ModelLoaderProps
    from adaptix._internal.special_cases_optimization import with_default_clause

    def constructor(*a, **kw):
        raise AssertionError
    tag(constructor, "constructor")
    ID_SETS = [
        ["data", "errors", "value"], ["getter", "sentinel", "constructor"], ["result", "extra", "key"],
        ["known_keys", "has_unexpected_error", "e"], ["class_", "\u0438\u043c\u044f", "loader_a"], ["packed_fields", "opt_fields", "f_a"],
        ["append_trail", "TypeLoadError", "len"], ["model_identity", "required_keys", "set"],
    ]
    KEY_SETS = [
        ["quo'te", 'dq"uote', "back\\slash"], ["new\nline", "{brace}", "$dollar"], ["#hash", "'); import os #", "x\\"],
        ["\r\n", "tab\t", "{0}{1}"], ["%s", "\u00e9\u00e8", ""],
    ]
    POL = {"skip": ExtraSkip(), "forbid": ExtraForbid(), "collect": ExtraCollect()}
    modes = [(dt, sc) for dt in (DebugTrail.DISABLE, DebugTrail.FIRST, DebugTrail.ALL) for sc in (True,)]
    combos = [(ids, keys) for ids in ID_SETS for keys in KEY_SETS[:2]] + [(ID_SETS[0], keys) for keys in KEY_SETS[2:]]
    for ids, keys in combos:
        kinds = ["R", "DV", "O"]
        spec = [(fid, k, "W" if k == "O" else "K", fid) for fid, k in zip(ids, kinds)]
        for cname, pol in (("flat", "forbid"), ("nested", "collect"), ("list", "skip")):
            if cname == "flat":
                cj = {"t": "dict", "map": {k: {"t": "field", "id": i} for k, i in zip(keys, ids)}, "extra": pol}
            elif cname == "nested":
                cj = {"t": "dict", "map": {keys[0]: {"t": "field", "id": ids[0]},
                                           keys[1]: {"t": "dict", "map": {keys[2]: {"t": "field", "id": ids[1]},
                                                                         keys[0]: {"t": "field", "id": ids[2]}}, "extra": pol}},
                      "extra": pol}
            else:
                cj = {"t": "dict", "map": {keys[0]: {"t": "list", "map": [{"t": "field", "id": ids[0]}], "extra": "skip"},
                                           keys[1]: {"t": "field", "id": ids[1]}, keys[2]: {"t": "field", "id": ids[2]}},
                      "extra": "skip"}

            def build(c):
                if c["t"] == "dict":
                    return InpDictCrown({k: build(v) for k, v in c["map"].items()}, extra_policy=POL[c["extra"]])
                if c["t"] == "list":
                    return InpListCrown([build(v) for v in c["map"]], extra_policy=POL[c["extra"]])
                return InpFieldCrown(c["id"])

            def mk_sieve(k):
                def hostile_sieve(obj, value):
                    raise AssertionError
                tag(hostile_sieve, f"sieve:{k}")
                _KEEP.append(hostile_sieve)
                return hostile_sieve

            def build_out(c):
                if c["t"] == "dict":
                    # every key of a dict node that maps straight to a field is sieved: the key text also reaches the
                    # conditional-append template
                    sv = {k: mk_sieve(k) for k in c.get("sieves", {})}
                    return OutDictCrown({k: build_out(v) for k, v in c["map"].items()}, sieves=sv)
                if c["t"] == "list":
                    return OutListCrown([build_out(v) for v in c["map"]])
                return OutFieldCrown(c["id"])
            move = "kwargs" if pol == "collect" else None
            for dt, sc in modes:
                # loader
                try:
                    fields, params = [], []
                    for fid, k, pk, pname in spec:
                        fields.append(InputField(id=fid, type=int, default=DefaultValue(7) if k == "DV" else NoDefault(),
                                                 is_required=(k == "R"), metadata=MappingProxyType({}), original=None))
                        params.append(Param(field_id=fid, name=pname, kind=ParamKind.KW_ONLY if pk == "W" else ParamKind.POS_OR_KW))
                    from adaptix._internal.model_tools.definitions import ParamKwargs
                    shape = InputShape(fields=tuple(fields), params=tuple(params), kwargs=ParamKwargs(int) if move else None,
                                       constructor=constructor, overriden_types=frozenset())
                    layout = InputNameLayout(crown=build(cj), extra_move=ExtraKwargs() if move else None)
                    loaders = {}
                    for fid in ids:
                        def ld(data):
                            raise AssertionError
                        tag(ld, f"loader:{fid}")
                        _KEEP.append(ld)
                        loaders[fid] = ld
                    gen = BuiltinModelLoaderGen(shape=shape, name_layout=layout, debug_trail=dt, strict_coercion=sc,
                                                field_loaders=loaders, skipped_fields=get_skipped_fields(shape, layout),
                                                model_identity="Model", props=ModelLoaderProps())
                    src, ns = gen.produce_code("model_loader")
                    emit({"kind": "loader", "shape_name": "hostile:" + ",".join(ids), "crown_name": cname,
                          "fields": [{"id": s[0], "kind": s[1], "param_kind": s[2], "param": s[3]} for s in spec],
                          "crown": cj, "extra_move": move, "debug_trail": dt.name, "strict": sc, "skipped": [], "as_is": [],
                          "source": src, "origins": take_origins(src), "namespace": {k: describe(v) for k, v in ns.items()}})
                except Exception as e:
                    emit({"kind": "loader", "error": f"{type(e).__name__}: {e}", "shape_name": "hostile:" + ",".join(ids),
                          "crown_name": cname, "debug_trail": dt.name, "trace": traceback.format_exc()[-500:]})
                # dumper
                try:
                    ofields = []
                    for fid, k, pk, pname in spec:
                        acc = create_attr_accessor(fid, is_required=(k != "O"))
                        ofields.append(OutputField(id=fid, type=int, default=NoDefault(), metadata=MappingProxyType({}),
                                                   original=None, accessor=acc))
                    oshape = OutputShape(fields=tuple(ofields), overriden_types=frozenset())
                    ocj = json.loads(json.dumps(cj))

                    def add_sieves(c):
                        if c["t"] == "dict":
                            c["sieves"] = {k: "custom" for k, v in c["map"].items() if v["t"] == "field"}
                            for v in c["map"].values():
                                add_sieves(v)
                        elif c["t"] == "list":
                            for v in c["map"]:
                                add_sieves(v)
                    add_sieves(ocj)
                    olayout = OutputNameLayout(crown=build_out(ocj), extra_move=None)
                    dumpers = {}
                    for fid in ids:
                        def dp(data):
                            raise AssertionError
                        tag(dp, f"dumper:{fid}")
                        _KEEP.append(dp)
                        dumpers[fid] = dp
                    gen = BuiltinModelDumperGen(shape=oshape, name_layout=olayout, debug_trail=dt, fields_dumpers=dumpers,
                                                model_identity="Model")
                    src, ns = gen.produce_code("model_dumper")
                    emit({"kind": "dumper", "shape_name": "hostile:" + ",".join(ids), "crown_name": cname,
                          "fields": [{"id": s[0], "kind": {"R": "R", "DV": "R", "O": "O"}[s[1]]} for s in spec],
                          "crown": ocj, "extra_move": None, "debug_trail": dt.name, "as_is": [],
                          "source": src, "origins": take_origins(src), "namespace": {k: describe(v) for k, v in ns.items()}})
                except Exception as e:
                    emit({"kind": "dumper", "error": f"{type(e).__name__}: {e}", "shape_name": "hostile:" + ",".join(ids),
                          "crown_name": cname, "debug_trail": dt.name, "trace": traceback.format_exc()[-500:]})


# ----------------------------------------------------------------------------------------------------------------
# converters (C13): broaching plans -> expression; converter template

def broach_family(tier, seed):
    from decimal import Decimal
    from inspect import Parameter, Signature

    from adaptix._internal.code_tools.name_sanitizer import BuiltinNameSanitizer
    from adaptix._internal.conversion.broaching.code_generator import BuiltinBroachingCodeGenerator
    from adaptix._internal.conversion.broaching.definitions import (
        AccessorElement, ConstantElement, FunctionElement, KeywordArg, ParameterElement, PositionalArg, UnpackIterable,
        UnpackMapping,
    )
    from adaptix._internal.model_tools.definitions import create_attr_accessor, create_key_accessor, Accessor
    from adaptix._internal.special_cases_optimization import as_is_stub, as_is_stub_with_ctx

    tag(as_is_stub, "as_is_stub")
    tag(as_is_stub_with_ctx, "as_is_stub_with_ctx")
    funcs = {}

    def mkfunc(name, pyname=None):
        def f(*a, **kw):
            raise AssertionError
        f.__name__ = pyname or name
        tag(f, "func:" + name)
        _KEEP.append(f)
        funcs[name] = f
        return f

    class NoNameCallable:
        def __call__(self, *a, **kw):
            raise AssertionError
    nn = NoNameCallable()
    tag(nn, "func:noname")

    def getter(obj):
        raise AssertionError
    tag(getter, "getter:custom")

    class CustomAccessor(Accessor):
        @property
        def getter(self):
            return getter

        @property
        def access_error(self):
            return None

        @property
        def trail_element(self):
            return "custom"

        def __hash__(self):
            return 1

        def __eq__(self, other):
            return self is other

    dec = Decimal("1")
    tag(dec, "const:decimal")
    objc = object()
    tag(objc, "const:object")

    def J(el):
        """json description of a plan"""
        if isinstance(el, ParameterElement):
            return {"k": "param", "name": el.name}
        if isinstance(el, ConstantElement):
            return {"k": "const", "value": encode_value(el.value), "tag": TAGS.get(id(el.value))}
        if isinstance(el, FunctionElement):
            args = []
            for a in el.args:
                kind = type(a).__name__
                args.append({"kind": kind, "key": getattr(a, "key", None), "el": J(a.element)})
            return {"k": "func", "tag": TAGS.get(id(el.func)), "args": args}
        if isinstance(el, AccessorElement):
            acc = el.accessor
            d = {"k": "acc", "target": J(el.target)}
            if isinstance(acc, CustomAccessor):
                d.update(acc="getter", tag="getter:custom")
            elif hasattr(acc, "attr_name"):
                d.update(acc="attr", name=acc.attr_name)
            else:
                d.update(acc="item", key=encode_value(acc.key))
            return d
        raise TypeError(el)

    data, ctx = ParameterElement("data"), ParameterElement("ctx")
    leaves = [
        data, ctx,
        ConstantElement(1), ConstantElement("x'y"), ConstantElement(None), ConstantElement(True), ConstantElement(dec),
        ConstantElement(objc), ConstantElement(()), ConstantElement([]),
        AccessorElement(data, create_attr_accessor("a", is_required=True)),
        AccessorElement(data, create_attr_accessor("not-ident", is_required=True)),
        AccessorElement(data, create_key_accessor("k'q", access_error=KeyError)),
        AccessorElement(data, create_key_accessor("class", access_error=KeyError)),
        AccessorElement(ctx, create_key_accessor(0, access_error=None)),
        AccessorElement(ctx, create_key_accessor(1, access_error=None)),
        AccessorElement(data, CustomAccessor()),
        # (appended: indices above are referred to below) strings with line breaks -- a literal rendered over several source
        # lines picks up the indentation of the generated body
        ConstantElement("line1\nline2"), ConstantElement(("a\nb", 1)),
    ]
    nested_acc = AccessorElement(AccessorElement(data, create_attr_accessor("inner", is_required=True)),
                                 create_attr_accessor("leaf", is_required=True))
    # NOTE: an accessor whose target is another accessor is legal for the BroachingPlan type but no builtin planner builds
    # one (ModelCoercerProvider only emits AccessorElement(ParameterElement, ..)); it is rendered as "return \n data.a.b"
    # (returns None) today -- outside C13, recorded in DESIGN.md as an observation, not enumerated here.
    del nested_acc
    plans = []
    coer = mkfunc("coercer_a", "coercer")
    coer2 = mkfunc("coercer_b", "coercer")          # same __name__: mangling must keep them apart
    ctor = mkfunc("constructor", "Model")
    kwf = mkfunc("linked", "data")                  # __name__ collides with a parameter of the closure
    fact = mkfunc("factory", "factory")
    # user factories that DO return when called (a counter, a container builder): link_constant(factory=...) /
    # zero-argument link_function. The generator must emit the call; running them while generating freezes their result
    stub_calls = []

    def counting_factory():
        stub_calls.append("counting_factory")
        return len(stub_calls)
    tag(counting_factory, "func:counting_factory")

    def container_factory():
        stub_calls.append("container_factory")
        return {"a": [1]}
    tag(container_factory, "func:container_factory")
    _KEEP.extend([counting_factory, container_factory])
    # depth 1: every leaf alone
    plans += leaves
    # depth 2: field coercions coercer(leaf, ctx)
    lvl2 = [FunctionElement(func=coer, args=(PositionalArg(l), PositionalArg(ctx))) for l in leaves]
    lvl2 += [FunctionElement(func=as_is_stub_with_ctx, args=(PositionalArg(l), PositionalArg(ctx))) for l in leaves[:6]]
    lvl2 += [FunctionElement(func=as_is_stub, args=(PositionalArg(leaves[10]),))]
    lvl2 += [FunctionElement(func=fact, args=()), FunctionElement(func=list, args=()), FunctionElement(func=dict, args=()),
             FunctionElement(func=nn, args=(PositionalArg(data),)),
             FunctionElement(func=counting_factory, args=()), FunctionElement(func=container_factory, args=())]
    plans += lvl2
    # depth 3: constructor calls mixing positional / keyword (incl. python keywords) / unpack
    import random
    rnd = random.Random(seed)
    combos = []
    pool = lvl2 + leaves
    n_ctor = 70 if tier == "quick" else 500
    for _ in range(n_ctor):
        k = rnd.randint(1, 5)
        els = [rnd.choice(pool) for _ in range(k)]
        n_pos = rnd.randint(0, k)
        args = [PositionalArg(e) for e in els[:n_pos]]
        keys = rnd.sample(["a", "b", "class", "data", "ctx", "from", "x_1", "zz"], k - n_pos)
        args += [KeywordArg(key, e) for key, e in zip(keys, els[n_pos:])]
        combos.append(FunctionElement(func=ctor, args=tuple(args)))
    combos.append(FunctionElement(func=ctor, args=(UnpackIterable(leaves[10]), UnpackMapping(leaves[12]))))
    combos.append(FunctionElement(func=ctor, args=(PositionalArg(FunctionElement(func=coer, args=(PositionalArg(leaves[10]), PositionalArg(ctx)))),
                                                   KeywordArg("b", FunctionElement(func=coer2, args=(PositionalArg(leaves[12]), PositionalArg(ctx)))),
                                                   KeywordArg("c", FunctionElement(func=kwf, args=(PositionalArg(data),
                                                                                                    KeywordArg("q", leaves[14])))))))
    # function linking nested in constructor: ctor(f(data, kw=coercer(data.a, ctx)), b=coercer(ctx[1], ctx))
    combos.append(FunctionElement(func=ctor, args=(
        PositionalArg(FunctionElement(func=kwf, args=(PositionalArg(data), KeywordArg("kw", lvl2[10])))),
        KeywordArg("b", FunctionElement(func=coer, args=(PositionalArg(leaves[15]), PositionalArg(ctx)))))))
    plans += combos
    sig = Signature(parameters=[Parameter("data", Parameter.POSITIONAL_ONLY), Parameter("ctx", Parameter.POSITIONAL_ONLY)])
    for i, plan in enumerate(plans):
        try:
            gen = BuiltinBroachingCodeGenerator(plan=plan, name_sanitizer=BuiltinNameSanitizer())
            del stub_calls[:]
            src, ns = gen.produce_code(signature=sig, closure_name="coerce_A_to_B")
            emit({"kind": "broach", "idx": i, "plan": J(plan), "source": src, "origins": take_origins(src),
                  "namespace": {k: describe(v) for k, v in ns.items()}, "user_functions_run": list(stub_calls)})
        except Exception as e:
            emit({"kind": "broach", "idx": i, "plan": J(plan), "error": f"{type(e).__name__}: {e}",
                  "trace": traceback.format_exc()[-500:]})


def converter_family(tier, seed):
    from inspect import Parameter, Signature

    from adaptix._internal.conversion.converter_provider import BuiltinConverterProvider

    def coercer(data, ctx):
        raise AssertionError
    tag(coercer, "coercer")

    def stub(a, b=1):
        raise AssertionError
    tag(stub, "stub")
    dflt = object()
    tag(dflt, "default:object")
    K = Parameter
    sigs = {
        "one": [("src", K.POSITIONAL_OR_KEYWORD, K.empty)],
        "one_posonly": [("src", K.POSITIONAL_ONLY, K.empty)],
        "two": [("src", K.POSITIONAL_OR_KEYWORD, K.empty), ("extra", K.POSITIONAL_OR_KEYWORD, K.empty)],
        "three": [("src", K.POSITIONAL_OR_KEYWORD, K.empty), ("p1", K.POSITIONAL_OR_KEYWORD, K.empty), ("p2", K.KEYWORD_ONLY, K.empty)],
        "defaults": [("src", K.POSITIONAL_OR_KEYWORD, K.empty), ("p1", K.POSITIONAL_OR_KEYWORD, 5), ("p2", K.KEYWORD_ONLY, dflt)],
        "clash": [("coercer", K.POSITIONAL_OR_KEYWORD, K.empty), ("default_p", K.POSITIONAL_OR_KEYWORD, K.empty), ("p", K.KEYWORD_ONLY, "s")],
        "four": [("src", K.POSITIONAL_ONLY, K.empty), ("a", K.POSITIONAL_OR_KEYWORD, K.empty), ("b", K.POSITIONAL_OR_KEYWORD, K.empty),
                 ("c", K.KEYWORD_ONLY, None)],
    }
    prov = BuiltinConverterProvider()
    for sname, ps in sigs.items():
        sig = Signature(parameters=[Parameter(n, k, default=d, annotation=int) for n, k, d in ps], return_annotation=str)
        for st in (None, stub):
            for fname in ("convert", "coercer", ps[0][0]):
                try:
                    closure_name = prov._name_sanitizer.sanitize(fname) or "converter"
                    src, ns = prov._produce_code(signature=sig, stub_function=st, closure_name=closure_name,
                                                 function_name=fname, coercer=coercer)
                    emit({"kind": "converter", "sig": sname, "params": [[n, str(k), encode_value(d) if d is not K.empty else None,
                                                                        TAGS.get(id(d))] for n, k, d in ps],
                          "stub": st is not None, "function_name": fname, "closure_name": closure_name, "source": src,
                          "origins": take_origins(src), "namespace": {k: describe(v) for k, v in ns.items()}})
                except Exception as e:
                    emit({"kind": "converter", "sig": sname, "function_name": fname, "stub": st is not None,
                          "error": f"{type(e).__name__}: {e}", "trace": traceback.format_exc()[-500:]})


def convpipe_family(tier, seed):
    """whole converter compilation pipeline (recipe resolution, linking, planning, code generation) on enumerated pairs of
    dataclass models, extra parameters and conversion recipes; the emitted sources are collected by CodeGenAccumulator.
    No converter is called."""
    import dataclasses
    import random
    from inspect import Parameter, Signature

    from adaptix import P
    from adaptix._internal.conversion.facade.provider import (
        allow_unlinked_optional, from_param, link, link_constant, link_function,
    )
    from adaptix._internal.conversion.facade.retort import ConversionRetort
    from adaptix._internal.morphing.model.basic_gen import CodeGenAccumulator

    def user_coercer(x):
        raise AssertionError
    tag(user_coercer, "user_coercer")

    rnd = random.Random(seed)
    NAMES = ["a", "b", "c", "x", "z"]

    def make_models(cfg, uid):
        ns = {}
        inner = cfg.get("inner")
        if inner:
            SrcInner = dataclasses.make_dataclass(f"SrcInner", [(n, int) for n in inner["src_fields"]])
            DstInner = dataclasses.make_dataclass(f"DstInner", [(n, int) if not opt else (n, int, dataclasses.field(default=0))
                                                                for n, opt in inner["dst_fields"]])
            ns["SrcInner"], ns["DstInner"] = SrcInner, DstInner
            if cfg.get("same_inner"):
                # the nested field has the very same class on both sides: it is still rebuilt field by field (a recipe may aim
                # at its fields)
                ns["SrcInner"] = DstInner
        sf = [(n, int) for n in cfg["src_fields"]]
        df = [(n, int) if not opt else (n, int, dataclasses.field(default=0)) for n, opt in cfg["dst_fields"]]
        if cfg.get("dict_field"):
            # a container field with the very same annotation on both sides
            from typing import Dict
            sf.append(("m", Dict[str, int]))
            df.insert(0, ("m", Dict[str, int]))
        if inner:
            if not cfg.get("inner_param"):      # (otherwise the nested source model is a converter parameter `n`)
                sf.append(("n", ns["SrcInner"]))
            # a required field may not follow one with a default: put the nested model first
            df.insert(0, ("n", ns["DstInner"]))
        ns["Src"] = dataclasses.make_dataclass("Src", sf)
        ns["Dst"] = dataclasses.make_dataclass("Dst", df)
        return ns

    def build_recipe(cfg, ns):
        out = []
        funcs = {}
        for i, it in enumerate(cfg["recipe"]):
            k = it["k"]
            lvl = ns["DstInner"] if it.get("level") == "inner" else ns["Dst"]
            if k == "link":
                out.append(link(it["src"], P[lvl][it["dst"]], coercer=user_coercer if it.get("coercer") else None))
            elif k == "link_re":
                out.append(link("(" + "|".join(it["alts"]) + ")", P[lvl][it["dst"]]))
            elif k == "link_typed":
                src_m = ns["SrcInner"] if it.get("level") == "inner" else ns["Src"]
                out.append(link(P[src_m][it["src"]], P[lvl][it["dst"]]))
            elif k == "link_param":
                out.append(link(from_param(it["param"]), P[lvl][it["dst"]]))
            elif k == "const":
                out.append(link_constant(P[lvl][it["dst"]], value=it["value"]))
            elif k == "const_factory":
                def fac():
                    raise AssertionError
                tag(fac, f"factory:{i}")
                _KEEP.append(fac)
                out.append(link_constant(P[lvl][it["dst"]], factory=fac))
            elif k == "func":
                params = ["model"] + list(it["pos"]) + (["*"] if it["kwonly"] else []) + list(it["kwonly"])
                src = f"def linked_{i}({', '.join(p + ': int' if p not in ('*', 'model') else p for p in params)}) -> int:\n    raise AssertionError\n"
                loc = {}
                exec(src, {}, loc)     # defines a stub that is never called
                f = loc[f"linked_{i}"]
                tag(f, f"linked:{i}")
                _KEEP.append(f)
                out.append(link_function(f, P[lvl][it["dst"]]))
            elif k == "func_builtin":
                # a builtin factory used as a linked function: it receives the model (`list(model)`), it is not "the empty list"
                out.append(link_function({"list": list, "tuple": tuple}[it["func"]], P[lvl][it["dst"]]))
            elif k == "allow":
                out.append(allow_unlinked_optional(P[lvl][it["dst"]]))
        if cfg.get("same_type_coercer"):
            from adaptix._internal.conversion.facade.provider import coercer
            out.append(coercer(int, int, user_coercer))
        return out

    def gen_cfg():
        n_src = rnd.randint(1, 4)
        src_fields = rnd.sample(NAMES, n_src)
        n_dst = rnd.randint(1, 3)
        dst_names = rnd.sample(["a", "b", "c"], n_dst)
        req = [(n, False) for n in dst_names]
        opt = [("d", True)] if rnd.random() < 0.4 else []
        if rnd.random() < 0.4:
            opt.append(("z", True))      # an optional destination field AFTER a possibly skipped one
        cfg = {"src_fields": src_fields, "dst_fields": req + opt, "params": [], "recipe": []}
        if rnd.random() < 0.35:
            cfg["inner"] = {"src_fields": rnd.sample(["a", "p", "q"], rnd.randint(1, 3)),
                            "dst_fields": [(n, False) for n in rnd.sample(["a", "p"], rnd.randint(1, 2))]}
        n_par = rnd.choice([0, 0, 1, 1, 2, 3])
        cfg["params"] = rnd.sample(["a", "b", "c", "p", "extra", "x"], n_par)
        items = []
        for _ in range(rnd.choice([0, 1, 1, 2, 3])):
            kind = rnd.choice(["link", "link", "link_typed", "link_param", "const", "const_factory", "func", "allow", "link_coercer",
                               "link_re", "link_re"])
            level = "inner" if cfg.get("inner") and rnd.random() < 0.4 else "top"
            dsts = [n for n, _ in (cfg["inner"]["dst_fields"] if level == "inner" else cfg["dst_fields"])]
            dst = rnd.choice(dsts)
            if kind in ("link", "link_coercer"):
                items.append({"k": "link", "src": rnd.choice(NAMES + ["p", "extra"]), "dst": dst, "level": level,
                              "coercer": kind == "link_coercer"})
            elif kind == "link_re":
                items.append({"k": "link_re", "alts": rnd.sample(NAMES + ["p", "q", "extra"], rnd.randint(2, 4)), "dst": dst, "level": level})
            elif kind == "link_typed":
                pool = cfg["inner"]["src_fields"] if level == "inner" else cfg["src_fields"]
                items.append({"k": "link_typed", "src": rnd.choice(pool), "dst": dst, "level": level})
            elif kind == "link_param":
                items.append({"k": "link_param", "param": rnd.choice(cfg["params"] or ["extra"]), "dst": dst, "level": level})
            elif kind == "const":
                items.append({"k": "const", "dst": dst, "value": rnd.choice([5, "s", None, True, [1, 2], {"k": [1]}]), "level": level})
            elif kind == "const_factory":
                items.append({"k": "const_factory", "dst": dst, "level": level})
            elif kind == "func":
                pool = cfg["inner"]["src_fields"] if level == "inner" else cfg["src_fields"]
                kwonly = rnd.sample(pool, rnd.randint(0, min(2, len(pool))))
                pos = rnd.sample([p for p in cfg["params"] if p not in kwonly], rnd.randint(0, min(1, len([p for p in cfg["params"] if p not in kwonly]))))
                items.append({"k": "func", "dst": dst, "kwonly": kwonly, "pos": pos, "level": level})
            elif kind == "allow":
                items.append({"k": "allow", "dst": rnd.choice(["d", "d", "z"]), "level": "top"})
        cfg["recipe"] = items
        return cfg

    fixed = [
        {"src_fields": ["a", "b"], "dst_fields": [("a", False), ("b", False)], "params": [], "recipe": []},
        {"src_fields": ["a", "b"], "dst_fields": [("a", False), ("b", False)], "params": ["b"], "recipe": []},
        {"src_fields": ["a"], "dst_fields": [("a", False), ("b", False)], "params": ["b", "b2"], "recipe": []},
        {"src_fields": ["a", "x"], "dst_fields": [("a", False)], "params": ["x"], "recipe": [{"k": "link", "src": "x", "dst": "a", "level": "top"}]},
        {"src_fields": ["a"], "dst_fields": [("a", False)], "params": ["p"], "inner": {"src_fields": ["a"], "dst_fields": [("a", False), ("p", False)]},
         "recipe": [{"k": "link_param", "param": "p", "dst": "p", "level": "inner"}]},
        {"src_fields": ["a"], "dst_fields": [("a", False)], "params": ["p"], "inner": {"src_fields": ["a"], "dst_fields": [("a", False), ("p", False)]},
         "recipe": []},
        {"src_fields": ["a"], "dst_fields": [("a", False), ("d", True)], "params": [], "recipe": [{"k": "allow", "dst": "d", "level": "top"}]},
        {"src_fields": ["a"], "dst_fields": [("a", False), ("d", True)], "params": [], "recipe": []},
        {"src_fields": ["a", "b"], "dst_fields": [("a", False), ("c", False)], "params": ["extra"],
         "recipe": [{"k": "func", "dst": "c", "kwonly": ["a", "b"], "pos": ["extra"], "level": "top"}]},
        {"src_fields": ["a", "b"], "dst_fields": [("a", False), ("c", False)], "params": [],
         "recipe": [{"k": "const", "dst": "c", "value": 5, "level": "top"}, {"k": "link", "src": "b", "dst": "c", "level": "top"}]},
        {"src_fields": ["a", "b"], "dst_fields": [("a", False), ("c", False)], "params": [],
         "recipe": [{"k": "link", "src": "b", "dst": "c", "level": "top"}, {"k": "const", "dst": "c", "value": 5, "level": "top"}]},
        {"src_fields": ["a", "b"], "dst_fields": [("a", False), ("c", False)], "params": [],
         "recipe": [{"k": "link", "src": "zz", "dst": "c", "level": "top"}, {"k": "const", "dst": "c", "value": 5, "level": "top"}]},
    ]
    fixed += [
        # a keyword-only parameter of a linked function named like a source field AND like a converter parameter: the field
        {"src_fields": ["a", "x"], "dst_fields": [("a", False), ("c", False)], "params": ["x"],
         "recipe": [{"k": "func", "dst": "c", "kwonly": ["x"], "pos": [], "level": "top"}]},
        {"src_fields": ["a", "x"], "dst_fields": [("a", False), ("c", False)], "params": ["x", "a"],
         "recipe": [{"k": "func", "dst": "c", "kwonly": ["a", "x"], "pos": [], "level": "top"}]},
        {"src_fields": ["a", "z"], "dst_fields": [("a", False), ("d", True), ("z", True)], "params": [],
         "recipe": [{"k": "allow", "dst": "d", "level": "top"}]},
        {"src_fields": ["a", "c"], "dst_fields": [("a", False), ("d", True), ("z", True)], "params": ["z"],
         "recipe": [{"k": "allow", "dst": "d", "level": "top"}]},
        {"src_fields": ["q"], "dst_fields": [("a", False)], "params": ["b", "c", "x"],
         "recipe": [{"k": "link_re", "alts": ["b", "c", "x"], "dst": "a", "level": "top"}]},
        {"src_fields": ["x", "b"], "dst_fields": [("a", False)], "params": ["c"],
         "recipe": [{"k": "link_re", "alts": ["b", "c", "x"], "dst": "a", "level": "top"}]},
        {"src_fields": ["a"], "dst_fields": [("a", False)], "params": ["p", "q"], "inner": {"src_fields": ["a"], "dst_fields": [("a", False), ("p", False)]},
         "recipe": [{"k": "link_re", "alts": ["p", "q"], "dst": "p", "level": "inner"}]},
    ]
    fixed += [
        # the nested source model is an extra PARAMETER of the converter; another parameter is named like a field of the nested
        # model: fields of a nested destination are never taken from converter parameters by name
        {"src_fields": ["a"], "dst_fields": [("a", False)], "params": ["n", "p"], "inner_param": True,
         "inner": {"src_fields": ["a", "p"], "dst_fields": [("a", False), ("p", False)]}, "recipe": []},
        {"src_fields": ["a", "b"], "dst_fields": [("a", False), ("b", False)], "params": ["a", "n"], "inner_param": True,
         "inner": {"src_fields": ["a", "q"], "dst_fields": [("a", False)]}, "recipe": []},
        {"src_fields": ["a"], "dst_fields": [("a", False)], "params": ["p", "n"], "inner_param": True,
         "inner": {"src_fields": ["a", "p"], "dst_fields": [("a", False), ("p", False)]},
         "recipe": [{"k": "link_param", "param": "p", "dst": "p", "level": "inner"}]},
        # an optional destination field that MAY stay unlinked but has a link that is not by name: the link wins
        {"src_fields": ["a", "x"], "dst_fields": [("a", False), ("d", True)], "params": [],
         "recipe": [{"k": "allow", "dst": "d", "level": "top"}, {"k": "link", "src": "x", "dst": "d", "level": "top"}]},
        {"src_fields": ["a"], "dst_fields": [("a", False), ("d", True)], "params": [],
         "recipe": [{"k": "allow", "dst": "d", "level": "top"}, {"k": "const", "dst": "d", "value": 5, "level": "top"}]},
        {"src_fields": ["a"], "dst_fields": [("a", False), ("d", True)], "params": ["d"],
         "recipe": [{"k": "allow", "dst": "d", "level": "top"}]},
        {"src_fields": ["a", "b"], "dst_fields": [("a", False), ("d", True), ("z", True)], "params": ["extra"],
         "recipe": [{"k": "allow", "dst": "d", "level": "top"}, {"k": "allow", "dst": "z", "level": "top"},
                    {"k": "func", "dst": "d", "kwonly": ["b"], "pos": [], "level": "top"}, {"k": "link_param", "param": "extra", "dst": "z", "level": "top"}]},
        {"src_fields": ["a"], "dst_fields": [("a", False), ("c", False)], "params": [],
         "recipe": [{"k": "func_builtin", "func": "list", "dst": "c", "level": "top"}]},
        {"src_fields": ["a", "b"], "dst_fields": [("a", False), ("c", False)], "params": ["x"],
         "recipe": [{"k": "func_builtin", "func": "tuple", "dst": "c", "level": "top"}]},
        # a mutable constant: every converted object gets its own copy (a display evaluated in the body)
        {"src_fields": ["a"], "dst_fields": [("a", False), ("c", False)], "params": [],
         "recipe": [{"k": "const", "dst": "c", "value": [1, 2], "level": "top"}]},
        {"src_fields": ["a"], "dst_fields": [("a", False), ("c", False)], "params": [], "inner": {"src_fields": ["a"], "dst_fields": [("a", False), ("p", False)]},
         "recipe": [{"k": "const", "dst": "c", "value": {"k": [1]}, "level": "top"}, {"k": "const", "dst": "p", "value": [[3]], "level": "inner"}]},
        # the SAME class nested on both sides, with and without recipe elements aimed at its fields
        {"src_fields": ["a"], "dst_fields": [("a", False)], "params": [], "same_inner": True,
         "inner": {"src_fields": ["a", "p"], "dst_fields": [("a", False), ("p", False)]},
         "recipe": [{"k": "const", "dst": "p", "value": 5, "level": "inner"}]},
        {"src_fields": ["a"], "dst_fields": [("a", False)], "params": ["q"], "same_inner": True,
         "inner": {"src_fields": ["a", "p"], "dst_fields": [("a", False), ("p", False)]},
         "recipe": [{"k": "link_param", "param": "q", "dst": "p", "level": "inner"}]},
        {"src_fields": ["a"], "dst_fields": [("a", False)], "params": [], "same_inner": True,
         "inner": {"src_fields": ["a", "p"], "dst_fields": [("a", False), ("p", False)]}, "recipe": []},
        # containers of the very same type on both sides are still converted element-wise (a same-type user coercer reaches the
        # elements; the result never holds the source's container)
        {"src_fields": ["a"], "dst_fields": [("a", False)], "params": [], "dict_field": True, "recipe": []},
        {"src_fields": ["a", "b"], "dst_fields": [("a", False), ("b", False)], "params": ["b"], "dict_field": True, "same_type_coercer": True,
         "recipe": []},
    ]
    n_rand = 150 if tier == "quick" else 1500
    cfgs = fixed + [gen_cfg() for _ in range(n_rand)]
    for idx, cfg in enumerate(cfgs):
        # the second parameter list entry "b2" style names: keep as is
        try:
            ns = make_models(cfg, idx)
            acc = CodeGenAccumulator()
            retort = ConversionRetort(recipe=[*build_recipe(cfg, ns), acc])
            params = [Parameter("src", Parameter.POSITIONAL_OR_KEYWORD, annotation=ns["Src"])] + \
                     [Parameter(pn, Parameter.POSITIONAL_OR_KEYWORD, annotation=ns["SrcInner"] if cfg.get("inner_param") and pn == "n" else int)
                      for pn in cfg["params"]]
            sig = Signature(parameters=params, return_annotation=ns["Dst"])
            try:
                retort._produce_converter(signature=sig, stub_function=None, function_name="conv")
                err = None
            except Exception as e:      # creation refused (unlinked field ...): a legal outcome the oracle predicts as well
                err = f"{type(e).__name__}"
            closures = []
            for request, data in acc.list:
                tp = request.last_loc.type
                closures.append({"dst": getattr(tp, "__name__", str(tp)), "source": data.source,
                                 "namespace": {k: describe(v) for k, v in data.namespace.items() if not k.startswith("__")}})
            emit({"kind": "convpipe", "idx": idx, "cfg": cfg, "error": err, "closures": closures})
        except Exception as e:
            emit({"kind": "convpipe", "idx": idx, "cfg": cfg, "harness_error": f"{type(e).__name__}: {e}",
                  "trace": traceback.format_exc()[-600:]})


def stylepipe_family(tier, seed):
    """the layout pipeline on a model whose field ids are single words WITH capitals and mixed words: the documented name styles
    (the first word is lower-cased by the lower* / camel* styles, every word by upper* ...) apply to them like to any other id"""
    styles = ["camel", "pascal", "upper_snake", "lower_kebab", "lower", None]
    layoutpipe_family(tier, seed, FIELDS=[("userID", None), ("URL", None), ("event_name", None), ("x", 1), ("rest", "dict")],
                      only_cfgs=[{"nms": [{"name_style": st} if st else {}]} for st in styles]
                      + [{"nms": [{"name_style": "camel", "map": [{"t": "dict", "m": {"URL": "link"}}]}]}], idx_base=100000)


def layoutpipe_family(tier, seed, FIELDS=None, only_cfgs=None, idx_base=0):
    """whole model loader/dumper compilation pipeline (name_mapping facade -> overlays -> structure maker -> crown builder
    -> code generation) on enumerated name_mapping configurations over one dataclass model; the emitted sources are
    collected by CodeGenAccumulator.  No loader or dumper is called."""
    import dataclasses
    import random

    from adaptix import DebugTrail, ExtraForbid, ExtraSkip, NameStyle, P, Retort, name_mapping
    from adaptix._internal.morphing.model.basic_gen import CodeGenAccumulator

    rnd = random.Random(seed + 7)
    FIELDS = FIELDS or [("a", None), ("b_", None), ("c_d", 1), ("e__", 2), ("long_name_x", None), ("_p", 0), ("rest", "dict")]

    def make_model(with_rest):
        fl = []
        req = [(n, int) for n, d in FIELDS if d is None]
        opt = [(n, int, dataclasses.field(default=d)) for n, d in FIELDS if d is not None and d != "dict"]
        fl = req + opt
        if with_rest:
            fl.append(("rest", dict, dataclasses.field(default_factory=dict)))
        return dataclasses.make_dataclass("M", fl)

    STYLES = {"camel": NameStyle.CAMEL, "pascal": NameStyle.PASCAL, "upper_snake": NameStyle.UPPER_SNAKE,
              "lower_kebab": NameStyle.LOWER_KEBAB, "lower": NameStyle.LOWER, None: None}
    names = [n for n, _ in FIELDS if n != "rest"]

    def gen_map():
        kind = rnd.choice(["dict", "list"])

        def val():
            c = rnd.random()
            if c < 0.35:
                return rnd.choice(["k1", "k2", "a", "zz", "b"])
            if c < 0.5:
                return ["outer", rnd.choice(["in1", "in2", "..."])]
            if c < 0.6:
                return ["..."]
            if c < 0.66:
                return ["n", "m", "..."]
            if c < 0.7:
                # the same container KEY at different places of the tree (outer / n.outer / outer.n)
                return rnd.choice([["n", "outer", "..."], ["outer", "n", "..."], ["n", "m", "outer", "..."]])
            if c < 0.78:
                return None
            if c < 0.9:
                return ["lst", rnd.randint(0, 3)]
            return "..."
        def dct():
            return {"t": "dict", "m": {n: val() for n in rnd.sample(names, rnd.randint(1, 3))}}
        if kind == "dict":
            return [dct()]
        out = []
        for _ in range(rnd.randint(1, 3)):
            if rnd.random() < 0.6:
                out.append(dct())
            else:
                out.append({"t": "pair", "pred": rnd.choice(names + ["(a|b_)", "c_.*"]), "v": val()})
        return out

    def gen_nm():
        nm = {}
        if rnd.random() < 0.5:
            nm["map"] = gen_map()
        if rnd.random() < 0.35:
            nm["name_style"] = rnd.choice(["camel", "pascal", "upper_snake", "lower_kebab"])
        if rnd.random() < 0.25:
            nm["trim_trailing_underscore"] = rnd.choice([True, False])
        if rnd.random() < 0.3:
            nm["skip"] = rnd.sample(names, rnd.randint(1, 2))
        if rnd.random() < 0.2:
            nm["only"] = rnd.sample(names, rnd.randint(3, 5))
        if rnd.random() < 0.2:
            nm["as_list"] = True
        if rnd.random() < 0.3:
            nm["omit_default"] = rnd.choice([True, ["c_d"], ["e__", "a"]])
        if rnd.random() < 0.3:
            nm["extra_in"] = rnd.choice(["forbid", "skip", "rest"])
        if rnd.random() < 0.2:
            nm["extra_out"] = rnd.choice(["skip", "rest"])
        return nm

    def build_map(m):
        out = []
        for el in m:
            def conv(v):
                if v == "...":
                    return ...
                if isinstance(v, list):
                    return tuple(... if x == "..." else x for x in v)
                return v
            if el["t"] == "dict":
                out.append({k: conv(v) for k, v in el["m"].items()})
            else:
                out.append((el["pred"], conv(el["v"])))
        return out if len(out) != 1 or not isinstance(out[0], dict) or rnd.random() < 0.5 else out[0]

    def build_nm(nm, M):
        kw = {}
        if "map" in nm:
            kw["map"] = build_map(nm["map"])
        if "name_style" in nm:
            kw["name_style"] = STYLES[nm["name_style"]]
        for k in ("trim_trailing_underscore", "as_list"):
            if k in nm:
                kw[k] = nm[k]
        for k in ("skip", "only"):
            if k in nm:
                kw[k] = list(nm[k])
        if "omit_default" in nm:
            kw["omit_default"] = nm["omit_default"] if isinstance(nm["omit_default"], bool) else list(nm["omit_default"])
        if "extra_in" in nm:
            kw["extra_in"] = {"forbid": ExtraForbid(), "skip": ExtraSkip(), "rest": "rest"}[nm["extra_in"]]
        if "extra_out" in nm:
            kw["extra_out"] = {"skip": ExtraSkip(), "rest": "rest"}[nm["extra_out"]]
        return name_mapping(M, **kw)

    fixed = [
        {"nms": [{}]},
        {"nms": [{"map": [{"t": "dict", "m": {"a": "x1"}}, {"t": "dict", "m": {"a": "x2", "c_d": "y"}}]}]},
        {"nms": [{"map": [{"t": "dict", "m": {"a": "x1"}}]}, {"map": [{"t": "dict", "m": {"a": "x2", "b_": "q"}}], "name_style": "camel"}]},
        {"nms": [{"as_list": True, "skip": ["c_d"]}]},
        {"nms": [{"as_list": True, "skip": ["c_d", "e__", "_p"], "map": [{"t": "dict", "m": {"long_name_x": ["k", "..."]}}]}]},
        {"nms": [{"name_style": "camel", "trim_trailing_underscore": False}]},
        {"nms": [{"skip": ["c_d"], "only": ["a", "b_", "c_d", "long_name_x"]}]},
        {"nms": [{"omit_default": True}]},
        {"nms": [{"extra_in": "rest", "extra_out": "rest"}]},
        {"nms": [{"extra_in": "forbid", "map": [{"t": "dict", "m": {"a": ["n", "a"], "b_": ["n", "b"]}}]}]},
        # two providers that both define skip / only / omit_default: the FIRST one decides, nothing is unioned
        {"nms": [{"skip": ["c_d"]}, {"skip": ["a", "e__"]}]},
        {"nms": [{"skip": []}, {"skip": ["c_d", "e__"], "name_style": "camel"}]},
        {"nms": [{"only": ["a", "b_", "long_name_x", "c_d"]}, {"only": ["a", "b_", "long_name_x"], "skip": ["c_d"]}]},
        {"nms": [{"omit_default": False}, {"omit_default": True}]},
        # one container KEY at several places of the tree, container keys that differ only in punctuation, interleaved
        # declaration order of sibling containers below the top level, nested lists
        {"nms": [{"map": [{"t": "dict", "m": {"a": ["prof", "addr", "x"], "b_": ["prof", "comp", "addr", "y"], "c_d": ["prof", "comp", "z"]}}]}]},
        {"nms": [{"map": [{"t": "dict", "m": {"a": ["k-1", "x"], "b_": ["k_1", "y"], "c_d": ["k.1", "z"]}}]}]},
        {"nms": [{"map": [{"t": "dict", "m": {"a": ["x", "p", "a"], "b_": ["x", "q", "b"], "c_d": ["x", "p", "c"], "e__": ["x", "q", "e"]}}]}]},
        {"nms": [{"map": [{"t": "dict", "m": {"a": [0], "b_": [1, 0], "c_d": [2, 0], "e__": [2, 1, 0], "long_name_x": [2, 1, 1], "_p": [1, 1]}}]}]},
        {"nms": [{"omit_default": True, "map": [{"t": "dict", "m": {"a": ["o", "i", "a"], "c_d": ["o", "i", "c"], "e__": ["o", "j", "i", "e"]}}]}]},
    ]
    n_rand = 120 if tier == "quick" else 1200
    if only_cfgs is not None:
        cfgs = only_cfgs
    else:
        cfgs = fixed + [{"nms": [gen_nm() for _ in range(rnd.choice([1, 1, 2]))]} for _ in range(n_rand)]
    for idx, cfg in enumerate(cfgs, start=idx_base):
        try:
            with_rest = any(nm.get("extra_in") == "rest" or nm.get("extra_out") == "rest" for nm in cfg["nms"])
            cfg["with_rest"] = with_rest
            M = make_model(with_rest)
            acc = CodeGenAccumulator()
            mode = [DebugTrail.DISABLE, DebugTrail.FIRST, DebugTrail.ALL][idx % 3]
            cfg["debug_trail"] = mode.name
            retort = Retort(recipe=[*[build_nm(nm, M) for nm in cfg["nms"]], acc], debug_trail=mode)
            out = {}
            for what in ("loader", "dumper"):
                before = len(acc.list)
                try:
                    getattr(retort, "get_" + what)(M)
                    err = None
                except Exception as e:
                    err = type(e).__name__
                progs = [d.source for r, d in acc.list[before:] if getattr(r.last_loc.type, "__name__", "") == "M"]
                out[what] = {"error": err, "sources": progs}
            emit({"kind": "layoutpipe", "idx": idx, "cfg": cfg, "loader": out["loader"], "dumper": out["dumper"],
                  "fields": [[f.name, f.default is dataclasses.MISSING and f.default_factory is dataclasses.MISSING]
                             for f in dataclasses.fields(M)]})
        except Exception as e:
            emit({"kind": "layoutpipe", "idx": idx, "cfg": cfg, "harness_error": f"{type(e).__name__}: {e}",
                  "trace": traceback.format_exc()[-600:]})


KIND_TEMPLATES = {
    "dataclass": ("from dataclasses import dataclass, field\n", "@dataclass\nclass {name}:\n{body}", "{n}: {t}", "{n}: {t} = {d}",
                  "{n}: {t} = field(default_factory={f})"),
    "namedtuple": ("from typing import NamedTuple\n", "class {name}(NamedTuple):\n{body}", "{n}: {t}", "{n}: {t} = {d}", None),
    "typeddict": ("from typing import TypedDict\n", "class {name}(TypedDict):\n{body}", "{n}: {t}", None, None),
    "attrs": ("import attr\n", "@attr.define\nclass {name}:\n{body}", "{n}: {t}", "{n}: {t} = {d}", "{n}: {t} = attr.Factory({f})"),
    "pydantic": ("from pydantic import BaseModel, Field\n", "class {name}(BaseModel):\n{body}", "{n}: {t}", "{n}: {t} = {d}",
                 "{n}: {t} = Field(default_factory={f})"),
}
# sqlalchemy: scalar columns only; the FIRST field of the spec is the (natural, not generated) primary key
SQLALCHEMY_TEMPLATE = ("from sqlalchemy.orm import DeclarativeBase, Mapped, mapped_column\n"
                       "class Base{c}(DeclarativeBase):\n    pass\n"
                       "class {name}(Base{c}):\n    __tablename__ = 't{c}'\n{body}\n")
# a required keyword-only field (constructor detail of the kinds that have it; an ordinary required field elsewhere)
KW_ONLY_TEMPLATES = {"dataclass": "{n}: {t} = field(kw_only=True)", "attrs": "{n}: {t} = attr.field(kw_only=True)"}


_KIND_COUNTER = [0]


def build_kind_model(kind, name, spec, extra_ns=None):
    """spec: list of (field name, type text, default: None | ('v', literal text) | ('f', factory name)); returns the class or None
    when the kind cannot express the spec (no defaults in TypedDict, no factories in NamedTuple)"""
    if kind == "sqlalchemy":
        if any(d is not None and d[0] not in "vf" for _n, _t, d in spec) or any(t not in ("int", "str", "float", "bool") for _n, t, _d in spec):
            return None
        _KIND_COUNTER[0] += 1
        # the second column has another name in the database than the attribute: the model's field is the ATTRIBUTE;
        # a column default (scalar or callable) is the default of the field
        def column(i, n, d):
            args = []
            if i == 0:
                args.append("primary_key=True")
            if i == 1:
                args.append(f"'{n}_col'")
            if d is not None:
                args.append(f"default={d[1]}")
            return f" = mapped_column({', '.join(args)})" if args else ""
        body = "\n".join(f"    {n}: Mapped[{t}]" + column(i, n, d) for i, (n, t, d) in enumerate(spec))
        src = SQLALCHEMY_TEMPLATE.format(c=_KIND_COUNTER[0], name=name, body=body)
        import types
        mod = types.ModuleType(f"kinds_family_{_KIND_COUNTER[0]}")
        sys.modules[mod.__name__] = mod
        mod.__dict__.update(extra_ns or {})
        exec(src, mod.__dict__)      # class definition only
        return mod.__dict__[name]
    if kind == "mapped_dataclass":
        # a dataclass that is ALSO mapped by SQLAlchemy (registry.map_imperatively): it stays the dataclass it is (the sqlalchemy
        # introspection documents that it does not support such classes), its constructor is the one @dataclass generated
        COL = {"int": "Integer", "str": "String", "float": "Float", "bool": "Boolean", "Optional[int]": "Integer"}
        if any(t not in COL for _n, t, _d in spec):
            return None
        cls = build_kind_model("dataclass", name, spec, extra_ns)
        if cls is None:
            return None
        import sqlalchemy
        from sqlalchemy.orm import registry
        reg = registry()
        _KIND_COUNTER[0] += 1
        cols = [sqlalchemy.Column(n, getattr(sqlalchemy, COL[t]), primary_key=(i == 0), nullable=(t.startswith("Optional") or i > 1))
                for i, (n, t, _d) in enumerate(spec)]
        reg.map_imperatively(cls, sqlalchemy.Table(f"mt{_KIND_COUNTER[0]}", reg.metadata, *cols))     # declaration only
        return cls
    imports, cls_t, req_t, dv_t, df_t = KIND_TEMPLATES[kind]
    lines = []
    for n, t, d in spec:
        if d is None:
            lines.append("    " + req_t.format(n=n, t=t))
        elif d[0] == "kw":
            lines.append("    " + KW_ONLY_TEMPLATES.get(kind, req_t).format(n=n, t=t))
        elif d[0] == "alias":
            # a required field whose constructor PARAMETER has another name (pydantic alias); a plain required field elsewhere
            if kind == "pydantic":
                lines.append(f"    {n}: {t} = Field(alias={d[1]!r})")
            else:
                lines.append("    " + req_t.format(n=n, t=t))
        elif d[0] == "ts":
            # a default that needs the half-built object (attrs Factory(takes_self=True)): the loader cannot supply it and leaves
            # the parameter out when the field is absent; the other kinds take the plain value
            if dv_t is None:
                return None
            if kind == "attrs":
                lines.append(f"    {n}: {t} = attr.Factory(lambda self: {d[1]}, takes_self=True)")
            else:
                lines.append("    " + dv_t.format(n=n, t=t, d=d[1]))
        elif d[0] == "v":
            if dv_t is None:
                return None
            lines.append("    " + dv_t.format(n=n, t=t, d=d[1]))
        else:
            if df_t is None:
                return None
            lines.append("    " + df_t.format(n=n, t=t, f=d[1]))
    src = "from typing import Any, Dict, List, Optional\n" + imports + cls_t.format(name=name, body="\n".join(lines)) + "\n"
    import types
    _KIND_COUNTER[0] += 1
    mod = types.ModuleType(f"kinds_family_{_KIND_COUNTER[0]}")
    sys.modules[mod.__name__] = mod
    mod.__dict__.update(extra_ns or {})
    exec(src, mod.__dict__)      # class definition only
    return mod.__dict__[name]


def _describe_ns_shallow(ns):
    out = {}
    for k, v in ns.items():
        if k.startswith("__"):
            continue
        d = describe(v)
        q = getattr(v, "__qualname__", None)
        if q:
            d["qualname"] = q
        out[k] = d
    return out


def kinds_family(tier, seed):
    """the same logical model declared as dataclass / NamedTuple / TypedDict / attrs / pydantic: the whole compilation pipeline
    is driven for each kind under the same name_mapping, the emitted loader/dumper sources are collected; converters between
    kinds are compiled as well.  Nothing emitted is ever called."""
    from adaptix import DebugTrail, NameStyle, Retort, name_mapping
    from adaptix._internal.conversion.facade.retort import ConversionRetort
    from adaptix._internal.morphing.model.basic_gen import CodeGenAccumulator

    specs = {
        "req2": [("a", "int", None), ("b_name", "str", None)],
        "req_types": [("a", "int", None), ("s", "str", None), ("f", "float", None), ("flag", "bool", None), ("items", "List[int]", None),
                      ("maybe", "Optional[int]", None)],
        "defaults": [("a", "int", None), ("b", "str", ("v", "'x'")), ("c", "int", ("v", "7")), ("n", "Optional[int]", ("v", "None")),
                     ("t", "bool", ("v", "True"))],
        "factory": [("a", "int", None), ("items", "List[int]", ("f", "list")), ("d", "Dict[str, int]", ("f", "dict"))],
        "snake": [("first_name", "str", None), ("last_name_", "str", None), ("age", "int", ("v", "0"))],
        "custom_factory": [("a", "int", None), ("items", "List[int]", ("f", "make_items"))],
        # private-looking names: NamedTuple forbids them, pydantic turns them into private attributes (documented) -> skipped
        "private": [("id", "int", None), ("_rev", "int", None), ("_opt", "int", ("v", "0"))],
        "single": [("value", "Any", None)],
        # private-looking REQUIRED names only: TypedDict can express this one
        "private_req": [("id", "int", None), ("_rev", "int", None)],
        # natural (string) primary key first: the sqlalchemy twin takes part in this spec only
        "sa_pk": [("code", "str", None), ("title", "str", None), ("n", "int", None)],
        # a keyword-only field declared in the middle: fields stay in declaration order, the parameters do not
        "kw_mid": [("a", "int", None), ("b", "str", ("kw", None)), ("c", "float", None)],
        # scalar and callable defaults that the sqlalchemy twin can express as column defaults
        "sa_defaults": [("code", "str", None), ("title", "str", ("v", "'x'")), ("n", "int", ("f", "make_n")), ("k", "int", ("v", "10")),
                        ("z", "int", ("f", "int")), ("w", "str", ("f", "str"))],      # builtins without an inspectable signature
        # private-looking field whose default needs the instance (attrs: parameter `disc`, attribute and field id `_disc`)
        "takes_self": [("price", "int", None), ("_disc", "int", ("ts", "0")), ("note", "str", ("ts", "'n'"))],
        # an annotation that cannot be resolved: every kind refuses the model, none guesses
        "unresolvable": [("a", "int", None), ("ref", "'MissingClass'", None)],
    }
    nms = {
        "plain": {},
        "camel": {"name_style": NameStyle.CAMEL},
        "as_list": {"as_list": True},
        "map": {"map": {"a": "A", "first_name": ("n", "first")}},
        "omit": {"omit_default": True},
        "skip": {"skip": ["c", "age", "d"]},
        "map_private": {"map": [("_rev", ("meta", ...))], "name_style": NameStyle.CAMEL},
    }
    SPEC_EXCLUDES = {"private": {"namedtuple", "pydantic"}, "private_req": {"namedtuple", "pydantic"}, "takes_self": {"namedtuple", "pydantic"}}
    def make_items():
        # never called by a correct pipeline (a factory runs per load); a tagged result exposes hoisting
        return ["made"]
    tag(make_items, "factory:make_items")
    def make_n():
        return 77
    tag(make_n, "factory:make_n")
    kinds = list(KIND_TEMPLATES)
    SPEC_EXTRA_KINDS = {"sa_pk": ["sqlalchemy", "mapped_dataclass"], "sa_defaults": ["sqlalchemy", "mapped_dataclass"],
                        "defaults": ["mapped_dataclass"], "snake": ["mapped_dataclass"]}
    modes = [DebugTrail.ALL] if tier == "quick" else [DebugTrail.ALL, DebugTrail.FIRST, DebugTrail.DISABLE]
    # (private_req x as_list: TypedDict's alphabetical field order -- the C17 known finding -- meets the skipped private field;
    # the ordering finding is already reported on the other specs)
    # (takes_self x omit: a default computed from the instance is not known to omit_default -- inherent to that kind)
    NM_EXCLUDES = {("private_req", "as_list"), ("takes_self", "omit")}
    for sname, spec in specs.items():
        for nname, nm in nms.items():
            if (sname, nname) in NM_EXCLUDES:
                continue
            for mode in modes:
                for kind in kinds + SPEC_EXTRA_KINDS.get(sname, []):
                    rec = {"kind": "kinds", "spec": sname, "fields": [[n, t, list(d) if d else None] for n, t, d in spec], "nm": nname,
                           "model_kind": kind, "debug_trail": mode.name}
                    try:
                        M = None if kind in SPEC_EXCLUDES.get(sname, ()) else build_kind_model(kind, "M", spec, {"make_items": make_items, "make_n": make_n})
                        if M is None:
                            rec["inexpressible"] = True
                            emit(rec)
                            continue
                        try:
                            import inspect
                            rec["ctor_params"] = [[p.name, p.kind.name, p.default is not inspect.Parameter.empty]
                                                  for p in inspect.signature(M).parameters.values()]
                        except (TypeError, ValueError):
                            rec["ctor_params"] = None
                        acc = CodeGenAccumulator()
                        retort = Retort(recipe=[name_mapping(M, **nm), acc], debug_trail=mode)
                        for what in ("loader", "dumper"):
                            before = len(acc.list)
                            try:
                                getattr(retort, "get_" + what)(M)
                                err = None
                            except Exception as e:
                                err = type(e).__name__
                            progs = [(d.source, _describe_ns_shallow(d.namespace)) for r, d in acc.list[before:]
                                     if getattr(r.last_loc.type, "__name__", "") == "M"]
                            rec[what] = {"error": err, "source": progs[0][0] if progs else None, "namespace": progs[0][1] if progs else None,
                                         "n_programs": len(progs)}
                        emit(rec)
                    except Exception as e:
                        rec["harness_error"] = f"{type(e).__name__}: {e}"
                        rec["trace"] = traceback.format_exc()[-600:]
                        emit(rec)
    # converters between kinds
    from adaptix import P
    from adaptix._internal.conversion.facade.provider import allow_unlinked_optional
    for sname in ("req2", "req_types", "snake_req", "skip_mid", "aliased"):
        spec = specs.get(sname) or [("first_name", "str", None), ("last_name_", "str", None)]
        if sname == "aliased":
            spec = [("user_name", "str", ("alias", "userName")), ("n", "int", None)]
        src_spec = dst_spec = spec
        skipped = []
        if sname == "skip_mid":
            # the destination has an optional field in the MIDDLE that the source lacks and that is allowed to stay unlinked
            src_spec = [("id", "int", None), ("rating", "int", ("v", "1"))]
            dst_spec = [("id", "int", None), ("views", "int", ("v", "0")), ("rating", "int", ("v", "1"))]
            skipped = ["views"]
        for ka in kinds:
            for kb in kinds:
                rec = {"kind": "kinds_conv", "spec": sname, "fields": [[n, t, None] for n, t, d in dst_spec], "src_kind": ka, "dst_kind": kb,
                       "skipped": skipped,
                       "param_of": {n: (d[1] if d is not None and d[0] == "alias" and kb == "pydantic" else n) for n, t, d in dst_spec}}
                try:
                    A = build_kind_model(ka, "SrcM", src_spec)
                    B = build_kind_model(kb, "DstM", dst_spec)
                    if A is None or B is None:
                        continue
                    acc = CodeGenAccumulator()
                    retort = ConversionRetort(recipe=[*[allow_unlinked_optional(P[B][f]) for f in skipped], acc])
                    try:
                        retort.get_converter(A, B)
                        err = None
                    except Exception as e:
                        err = type(e).__name__
                    progs = [(d.source, _describe_ns_shallow(d.namespace)) for r, d in acc.list if "def coerce_" in d.source]
                    rec.update({"error": err, "source": progs[0][0] if progs else None, "namespace": progs[0][1] if progs else None})
                    emit(rec)
                except Exception as e:
                    rec["harness_error"] = f"{type(e).__name__}: {e}"
                    rec["trace"] = traceback.format_exc()[-600:]
                    emit(rec)


def soundness_family(tier, seed):
    """C14: converters between two one-field models for enumerated (source type, destination type) pairs, including generic
    models parametrised explicitly and through inheritance; only the compilation runs (get_converter), nothing is converted"""
    from adaptix._internal.conversion.facade.retort import ConversionRetort
    from adaptix._internal.morphing.model.basic_gen import CodeGenAccumulator

    prelude = (
        "from dataclasses import dataclass\n"
        "from typing import Any, Dict, Generic, List, Mapping, Optional, Sequence, Set, Tuple, TypeVar, Union\n"
        "T = TypeVar('T')\n"
        "@dataclass\nclass Page(Generic[T]):\n    first: T\n    items: List[T]\n"
        "@dataclass\nclass PageDTO(Generic[T]):\n    first: T\n    items: List[T]\n"
        "@dataclass\nclass IntPage(Page[int]):\n    pass\n"
        "@dataclass\nclass StrPageDTO(PageDTO[str]):\n    pass\n"
        "@dataclass\nclass IntPageDTO(PageDTO[int]):\n    pass\n"
        "@dataclass\nclass Inner:\n    v: int\n"
        "@dataclass\nclass InnerDTO:\n    v: int\n"
        "@dataclass\nclass InnerBad:\n    v: str\n"
        "class MyInt(int):\n    pass\n"
        "from typing import NewType\nUserId = NewType('UserId', int)\nOrderId = NewType('OrderId', int)\n"
        "from typing import DefaultDict, OrderedDict\n"
        "@dataclass\nclass DstNode:\n    v: int\n    children: List['DstNode']\n"
        "@dataclass\nclass SrcLeaf:\n    v: str\n    children: List['SrcLeaf']\n"
        "@dataclass\nclass SrcMid:\n    v: int\n    children: List[SrcLeaf]\n"
        "@dataclass\nclass SrcRoot:\n    v: int\n    children: List[SrcMid]\n"
        "type Box[T] = List[T]\ntype PairOf[T] = Tuple[T, T]\ntype IntList = List[int]\n"
        "from typing import Annotated, Literal\n"
    )
    pairs = [
        ("int", "int", "as-is"), ("int", "str", "refuse"), ("bool", "int", "as-is"), ("int", "bool", "refuse"), ("MyInt", "int", "as-is"),
        ("int", "MyInt", "refuse"), ("int", "Any", "as-is"), ("Any", "int", "refuse"), ("str", "int", "refuse"), ("int", "float", "refuse"),
        ("List[int]", "List[int]", "accept"), ("List[int]", "List[str]", "refuse"), ("List[bool]", "List[int]", "accept"),
        ("List[int]", "Sequence[int]", "accept"), ("List[int]", "Set[str]", "refuse"), ("Dict[str, int]", "Dict[str, int]", "accept"),
        ("Dict[str, int]", "Dict[str, str]", "refuse"), ("Dict[str, int]", "Dict[int, int]", "refuse"),
        ("Mapping[str, int]", "Dict[str, int]", "rebuilt"), ("Sequence[int]", "List[int]", "rebuilt"),
        ("List[List[int]]", "List[List[str]]", "refuse"),
        ("Optional[int]", "Optional[int]", "accept"), ("Optional[int]", "int", "refuse"), ("int", "Optional[int]", "accept"),
        ("Optional[int]", "Optional[str]", "refuse"), ("Optional[List[int]]", "Optional[List[str]]", "refuse"),
        ("int", "Union[int, str]", "accept"), ("Union[int, str]", "int", "refuse"), ("Union[int, str]", "Union[str, int]", "accept"),
        ("Union[int, str, None]", "Optional[int]", "refuse"), ("Union[int, str]", "Union[int, str, None]", "accept"),
        ("List[int]", "Optional[List[str]]", "refuse"), ("List[int]", "Optional[List[int]]", "accept"),
        ("IntPage", "StrPageDTO", "refuse"), ("IntPage", "IntPageDTO", "accept"), ("Page[int]", "PageDTO[str]", "refuse"),
        ("Page[int]", "PageDTO[int]", "accept"), ("List[IntPage]", "List[StrPageDTO]", "refuse"), ("Page[int]", "StrPageDTO", "refuse"),
        ("IntPage", "PageDTO[int]", "accept"), ("Inner", "InnerDTO", "accept"), ("Inner", "InnerBad", "refuse"),
        ("List[Inner]", "List[InnerBad]", "refuse"), ("Optional[Inner]", "Optional[InnerBad]", "refuse"),
        ("Dict[str, Inner]", "Dict[str, InnerBad]", "refuse"), ("Tuple[int, ...]", "Tuple[str, ...]", "refuse"),
        ("Tuple[int, ...]", "Tuple[int, ...]", "accept"),
        # a NewType destination is a distinct type: only the same NewType may be handed over
        ("UserId", "UserId", "as-is"), ("int", "UserId", "refuse"), ("bool", "UserId", "refuse"), ("UserId", "OrderId", "refuse"),
        ("List[int]", "List[UserId]", "refuse"), ("Optional[OrderId]", "Optional[UserId]", "refuse"), ("Dict[str, int]", "Dict[str, UserId]", "refuse"),
        # same origin, other arguments, no structural coercer
        ("Tuple[int, str]", "Tuple[int, str]", "accept"), ("Tuple[int, str]", "Tuple[str, int]", "refuse"),
        ("Tuple[int, str]", "Tuple[int, str, bytes]", "refuse"),
        ("Tuple[()]", "List[int]", "refuse"), ("List[int]", "Tuple[()]", "refuse"),
        # the dict coercer builds a plain dict: it may serve destinations a plain dict IS a value of, nothing narrower
        ("Dict[str, int]", "OrderedDict[str, int]", "refuse"), ("Dict[str, int]", "DefaultDict[str, int]", "refuse"),
        ("Mapping[str, int]", "OrderedDict[str, int]", "refuse"), ("OrderedDict[str, int]", "OrderedDict[str, int]", "as-is"),
        ("OrderedDict[str, Inner]", "OrderedDict[str, InnerDTO]", "refuse"),
        # PEP 695 aliases: the arguments of a parametrised alias are part of the type
        ("Box[int]", "Box[int]", "accept"), ("Box[int]", "Box[str]", "refuse"), ("PairOf[int]", "PairOf[str]", "refuse"),
        ("Annotated[Box[int], 'm']", "Box[str]", "refuse"), ("IntList", "IntList", "accept"), ("Optional[Box[int]]", "Optional[Box[str]]", "refuse"),
        # constant-length tuples: the arity is part of the type
        ("Tuple[int, str]", "Tuple[int]", "refuse"), ("Tuple[int]", "Tuple[int, str]", "refuse"), ("Tuple[()]", "Tuple[int]", "refuse"),
        ("Optional[Tuple[int, str]]", "Optional[Tuple[int]]", "refuse"), ("List[Tuple[int, str]]", "List[Tuple[int]]", "refuse"),
        # Literal: 0 / 1 are not False / True
        ("Literal[1]", "Literal[True]", "refuse"), ("Literal[0, 1]", "Literal[False, True]", "refuse"), ("Literal[True]", "Literal[1, 2]", "refuse"),
        ("Literal[1, 2]", "Literal[1, 2]", "accept"), ("Optional[Literal[0]]", "Optional[Literal[False]]", "refuse"),
        # recursive destination, a chain of different source models whose last link does not fit (v: str -> int at depth 3)
        ("SrcRoot", "DstNode", "refuse"),
    ]
    import types
    for idx, (st, dt, want) in enumerate(pairs):
        rec = {"kind": "soundness", "idx": idx, "src": st, "dst": dt, "want": want}
        try:
            _KIND_COUNTER[0] += 1
            mod = types.ModuleType(f"soundness_family_{_KIND_COUNTER[0]}")
            sys.modules[mod.__name__] = mod
            exec(prelude + f"@dataclass\nclass SrcM:\n    x: {st}\n@dataclass\nclass DstM:\n    x: {dt}\n", mod.__dict__)
            acc = CodeGenAccumulator()
            retort = ConversionRetort(recipe=[acc])
            try:
                retort.get_converter(mod.SrcM, mod.DstM)
                err = None
            except Exception as e:
                err = type(e).__name__
            progs = [d.source for r, d in acc.list if "def coerce_SrcM_to_DstM(" in d.source]
            rec.update({"error": err, "source": progs[0] if progs else None})
        except Exception as e:
            rec["harness_error"] = f"{type(e).__name__}: {e}"
            rec["trace"] = traceback.format_exc()[-500:]
        emit(rec)


def describe_callable(v, depth=0):
    """qualified name of a callable plus, for closures, the callables it closes over (never called)"""
    q = getattr(v, "__qualname__", None) or getattr(v, "__name__", None) or type(v).__qualname__
    d = {"q": str(q)}
    if depth < 4:
        cells = []
        for c in (getattr(v, "__closure__", None) or ()):
            try:
                cv = c.cell_contents
            except ValueError:
                continue
            items = cv if isinstance(cv, (tuple, list)) else [cv]
            if not isinstance(cv, (tuple, list)) and not callable(cv) and hasattr(cv, "values"):
                try:
                    items = list(cv.values())      # ClassDispatcher / dict of dumpers held by a union dumper
                except Exception:
                    items = []
            for it in items:
                if callable(it) and not isinstance(it, type):
                    cells.append(describe_callable(it, depth + 1))
        if cells:
            d["cells"] = cells
    return d


GENERIC_PRELUDE = (
    "from dataclasses import dataclass, field\n"
    "from decimal import Decimal\n"
    "from typing import Annotated, Any, Dict, Generic, List, NamedTuple, Optional, Tuple, TypedDict, TypeVar, TypeVarTuple, Union, Unpack\n"
    "from generics_family_aux import ItemT\n"
    "Ts = TypeVarTuple('Ts')\n"
    "from attrs import define as attrs_define\n"
    "from pydantic import BaseModel as PydBaseModel\n"
    "T = TypeVar('T')\nU = TypeVar('U')\nV = TypeVar('V')\n"
    "@dataclass\nclass Book:\n    title: str\n"
    "B = TypeVar('B', bound=Book)\nC = TypeVar('C', str, bytes)\nN = TypeVar('N', bound=int)\n"
)


def generics_family(tier, seed):
    """C16: generic dataclass hierarchies given as specs; the loader/dumper of each queried parametrisation is compiled through the
    real Retort and for every field the bound loader/dumper (with the callables it closes over) is reported"""
    from adaptix import Retort
    from adaptix._internal.morphing.model.basic_gen import CodeGenAccumulator
    import types

    # a second module: a TypeVar with a STRING bound lives there together with the class the string names; the spec modules
    # import the TypeVar and define a homonym of that class (the bound is resolved where the TypeVar was made)
    if "generics_family_aux" not in sys.modules:
        aux = types.ModuleType("generics_family_aux")
        sys.modules["generics_family_aux"] = aux
        exec("from dataclasses import dataclass\nfrom typing import TypeVar\n"
             "@dataclass\nclass Item:\n    title: str\n"
             "ItemT = TypeVar('ItemT', bound='Item')\n", aux.__dict__)
    # spec: classes in definition order: (name, params, [(base, [args])], {field: type expr}); queries: type expressions
    specs = {
        # a directly tagged type variable, and a tagged container of it
        "annotated_var": {"classes": [("A", ["T"], [], {"x": "Annotated[T, 'm']", "xs": "Annotated[List[T], 'm']", "o": "Optional[Annotated[T, 'm']]"}),
                                      ("B", ["U"], [("A", ["U"])], {"own": "Annotated[U, 'k']"}),
                                      ("IntA", [], [("A", ["int"])], {})],
                          "queries": ["A[int]", "A[Decimal]", "B[str]", "IntA"]},
        # string bound of a TypeVar made in another module; this module has its own class of that name
        "foreign_string_bound": {"classes": [("Item", [], [], {"n": "int"}),
                                             ("Holder", ["ItemT"], [], {"item": "ItemT", "items": "List[ItemT]"}),
                                             ("Shelf", ["ItemT"], [("Holder", ["ItemT"])], {})],
                                 "queries": ["Holder", "Shelf"]},
        "simple": {"classes": [("A", ["T"], [], {"x": "T", "y": "int"})],
                   "queries": ["A[int]", "A[str]", "A[Decimal]", "A[bytes]", "A", "A[bool]"]},
        "containers": {"classes": [("A", ["T"], [], {"xs": "List[T]", "o": "Optional[T]", "d": "Dict[str, T]", "p": "T"})],
                       "queries": ["A[int]", "A[str]", "A[Decimal]", "A[float]"]},
        "two_params": {"classes": [("A", ["T", "U"], [], {"t": "T", "u": "U", "tu": "Dict[T, U]"})],
                       "queries": ["A[int, str]", "A[str, int]", "A[bool, Decimal]"]},
        "child_reorders": {"classes": [("A", ["T", "U"], [], {"t": "T", "u": "U"}),
                                       ("B", ["T", "U"], [("A", ["U", "T"])], {"own": "T"})],
                           "queries": ["B[int, str]", "B[str, int]", "A[int, str]"]},
        "partial_binding": {"classes": [("A", ["T", "U"], [], {"t": "T", "u": "U"}),
                                        ("B", ["V"], [("A", ["int", "V"])], {"v": "List[V]"})],
                            "queries": ["B[str]", "B[float]", "B[Decimal]"]},
        "non_generic_child": {"classes": [("A", ["T"], [], {"t": "T", "ts": "List[T]"}),
                                          ("IntA", [], [("A", ["int"])], {"extra": "str"}),
                                          ("StrA", [], [("A", ["str"])], {})],
                              "queries": ["IntA", "StrA", "A[float]"]},
        "three_levels": {"classes": [("A", ["T"], [], {"a": "T"}),
                                     ("B", ["T", "U"], [("A", ["U"])], {"b": "T"}),
                                     ("C3", ["V"], [("B", ["V", "int"])], {"c": "Optional[V]"})],
                         "queries": ["C3[str]", "C3[float]", "B[str, bool]"]},
        "shadowing": {"classes": [("A", ["T"], [], {"x": "T", "y": "T"}),
                                  ("B", ["T"], [("A", ["T"])], {"x": "str"}),
                                  ("C3", ["U"], [("B", ["int"])], {"y": "U"})],
                      "queries": ["B[int]", "B[float]", "C3[bool]", "C3[str]"]},
        "renamed_var": {"classes": [("A", ["T"], [], {"x": "T"}),
                                    ("B", ["U"], [("A", ["List[U]"])], {"u": "U"})],
                        "queries": ["B[int]", "B[str]"]},
        "implicit": {"classes": [("A", ["T", "B", "C", "N"], [], {"t": "T", "b": "B", "c": "C", "n": "N"})],
                     "queries": ["A", "A[int, Book, str, bool]"]},
        # annotations that mention the class variables in another order than Generic[...] declares them
        "annotation_reorders": {"classes": [("A", ["T", "U"], [], {"fwd": "Dict[T, List[U]]", "bwd": "Dict[U, List[T]]", "ut": "Dict[U, T]"})],
                                "queries": ["A[int, str]", "A[str, Decimal]", "A[bool, float]"]},
        "flipped_child": {"classes": [("A", ["T", "U"], [], {"tu": "Dict[T, U]", "ut": "Dict[U, T]"}),
                                      ("B", ["T", "U"], [("A", ["U", "T"])], {"own": "Dict[U, List[T]]"})],
                          "queries": ["B[int, str]", "B[Decimal, bool]"]},
        # a plain (already bound) class next to a subscripted base: its own parent's variables are bound by IT
        "plain_beside_generic": {"classes": [("A", ["T"], [], {"a": "T", "as_": "List[T]"}),
                                             ("IntA", [], [("A", ["int"])], {}),
                                             ("L", ["U"], [], {"l": "U"}),
                                             ("C3", [], [("IntA", []), ("L", ["str"])], {"own": "float"}),
                                             ("D4", ["V"], [("IntA", []), ("L", ["V"])], {"v": "Optional[V]"})],
                                 "queries": ["C3", "D4[bool]", "D4[Decimal]"]},
        # a plain `class G(C)` of a generic C leaves C bare: C's variables get their implicit parameters, C's own bindings
        # of ITS parents (and its overriding annotations) stay in force
        "plain_child_of_generic": {"classes": [("A", ["T"], [], {"a": "T", "b": "T"}),
                                               ("C2", ["U"], [("A", ["int"])], {"a": "List[U]"}),
                                               ("G", [], [("C2", [])], {}),
                                               ("GN", [], [("C2", [])], {"own": "str"}),
                                               ("H", [], [("A", [])], {}),
                                               ("C2S", [], [("C2", ["str"])], {}),
                                               ("X", [], [("C2S", [])], {})],
                                   "queries": ["G", "GN", "H", "X", "C2S"]},
        # the same resolver serves every model kind; TypedDict merges the parents' annotations into its own
        "td_simple": {"kind": "typeddict", "classes": [("A", ["T"], [], {"x": "T", "xs": "List[T]"}),
                                                       ("B", ["U"], [("A", ["U"])], {"own": "Dict[str, U]"}),
                                                       ("IntA", [], [("A", ["int"])], {"extra": "str"})],
                      "queries": ["A[int]", "A[Decimal]", "B[str]", "IntA"]},
        "td_shadowing": {"kind": "typeddict", "classes": [("A", ["T"], [], {"x": "T", "y": "T"}),
                                                          ("B", ["U"], [("A", ["int"])], {"x": "List[U]"})],
                         "queries": ["B[Decimal]"]},
        "attrs_three_levels": {"kind": "attrs", "classes": [("A", ["T"], [], {"a": "T"}),
                                                            ("B", ["T", "U"], [("A", ["U"])], {"b": "Dict[U, T]"}),
                                                            ("C3", ["V"], [("B", ["V", "int"])], {"c": "Optional[V]"})],
                               "queries": ["C3[str]", "B[str, bool]", "A"]},
        "attrs_shadowing": {"kind": "attrs", "classes": [("A", ["T"], [], {"x": "T", "y": "T"}),
                                                         ("B", ["U"], [("A", ["int"])], {"x": "List[U]"})],
                            "queries": ["B[Decimal]", "B[str]"]},
        # attrs: a custom __init__ that delegates to __attrs_init__; subclasses merely INHERIT __attrs_init__
        "attrs_custom_init": {"kind": "attrs", "custom_init": ["A"],
                              "classes": [("A", ["T"], [], {"a": "T", "as_": "List[T]"}),
                                          ("Child", [], [("A", ["int"])], {"c": "str"}),
                                          ("GenChild", ["T"], [("A", ["int"])], {"d": "T"}),
                                          ("Thru", ["U"], [("A", ["U"])], {})],
                              "queries": ["A[str]", "Child", "GenChild[str]", "GenChild[Decimal]", "Thru[bool]"]},
        "nt_simple": {"kind": "namedtuple", "classes": [("A", ["T", "U"], [], {"x": "T", "xs": "Dict[U, List[T]]", "n": "int"})],
                      "queries": ["A[int, str]", "A[Decimal, bytes]", "A"]},
        "pyd_two_levels": {"kind": "pydantic", "classes": [("A", ["T"], [], {"a": "T", "as_": "List[T]"}),
                                                           ("B", ["T", "U"], [("A", ["U"])], {"b": "Dict[str, T]"})],
                           "queries": ["B[str, int]", "A[Decimal]"]},
        # PEP 604 unions whose operands are builtin generics (types.UnionType carries __parameters__ too)
        "pep604": {"classes": [("A", ["T"], [], {"o": "list[T] | None", "u": "dict[str, T] | T", "p": "T | None"}),
                               ("IntA", [], [("A", ["int"])], {}),
                               ("B", ["U"], [("A", ["U"])], {"own": "U | None"})],
                   "queries": ["A[str]", "A[Decimal]", "IntA", "B[bool]"]},
        # a child re-declares a field with the SAME spelling (same TypeVar object) while it binds the parent's variable to
        # something else: the child's annotation still overrides
        "same_spelling_override": {"classes": [("A", ["T"], [], {"items": "List[T]", "x": "T"}),
                                               ("B", ["T"], [("A", ["int"])], {"items": "List[T]"}),
                                               ("G", [], [("B", ["Decimal"])], {})],
                                   "queries": ["B[str]", "G", "B[bool]"]},
        # diamond: the second branch overrides a field of the common root (MRO: D, B, C, A)
        "diamond": {"classes": [("A", ["T"], [], {"x": "T", "y": "T"}),
                                ("B", ["T"], [("A", ["T"])], {}),
                                ("C3", ["T"], [("A", ["T"])], {"x": "List[T]"}),
                                ("D4", [], [("B", ["int"]), ("C3", ["int"])], {}),
                                ("E5", ["U"], [("C3", ["U"]), ("B", ["U"])], {"own": "U"})],
                    "queries": ["D4", "E5[str]", "E5[Decimal]"]},
        # the class that re-annotates the member is an INDIRECT ancestor reached through the second base (MRO: D, B, C, C0, A)
        "diamond_deep": {"classes": [("A", ["V"], [], {"x": "V", "y": "V"}),
                                     ("B", ["T"], [("A", ["T"])], {}),
                                     ("C0", ["V"], [("A", ["V"])], {"x": "List[V]"}),
                                     ("C3", ["T"], [("C0", ["T"])], {}),
                                     ("D4", [], [("B", ["int"]), ("C3", ["Decimal"])], {}),
                                     ("E5", ["U"], [("B", ["U"]), ("C3", ["str"])], {"own": "U"})],
                         "queries": ["D4", "E5[bool]", "E5[float]"]},
        # the first base merely inherits a member that an unrelated second base declares itself (MRO: D, B, A, M): the first wins
        "second_base_declares": {"classes": [("A", ["T"], [], {"x": "T"}),
                                             ("B", ["T"], [("A", ["T"])], {}),
                                             ("M", ["U"], [], {"x": "List[U]", "m": "U"}),
                                             ("D4", [], [("B", ["int"]), ("M", ["str"])], {}),
                                             ("E5", ["V"], [("M", ["V"]), ("B", ["bool"])], {})],
                                 "queries": ["D4", "E5[Decimal]"]},
        # PEP 646: a TypeVarTuple takes any number of arguments; a child may thread its own TypeVarTuple through a base
        "tvt_simple": {"classes": [("Rec", ["T", "*Ts"], [], {"key": "T", "values": "Tuple[*Ts]", "lead": "Tuple[int, *Ts]"})],
                       "queries": ["Rec[int, str, bool]", "Rec[str]", "Rec[Decimal, bytes]"]},
        "tvt_threaded": {"classes": [("Rec", ["T", "*Ts"], [], {"key": "T", "values": "Tuple[*Ts]"}),
                                     ("IntRec", ["*Ts"], [("Rec", ["int", "*Ts"])], {}),
                                     ("Mid", ["U", "*Ts"], [("Rec", ["U", "str", "*Ts"])], {"extra": "U"}),
                                     ("Deep", ["*Ts"], [("Mid", ["bool", "*Ts", "float"])], {}),
                                     ("Fixed", [], [("IntRec", ["str", "Decimal"])], {})],
                         "queries": ["IntRec[str, bool]", "IntRec[Decimal]", "IntRec", "Mid[int, bytes]", "Mid[Decimal]",
                                     "Deep[int]", "Deep[bytes, str]", "Fixed", "Rec"]},
        # a BARE generic base: its variables get the documented implicit parameters (the bound, the union of the constraints), also
        # when the child is generic itself and happens to re-use the same variables
        "bare_base_bounded": {"classes": [("P", ["B", "C", "N"], [], {"b": "B", "cs": "List[C]", "n": "N"}),
                                          ("Child", [], [("P", [])], {"own": "str"}),
                                          ("GChild", ["T"], [("P", [])], {"t": "T"})],
                              "queries": ["Child", "GChild[int]", "GChild[Decimal]", "P"]},
        "bare_base_bounded_attrs": {"kind": "attrs", "classes": [("P", ["B", "C", "N"], [], {"b": "B", "cs": "List[C]", "n": "N"}),
                                                                 ("Child", [], [("P", [])], {"own": "str"})],
                                    "queries": ["Child", "P"]},
        "bare_base_bounded_td": {"kind": "typeddict", "classes": [("P", ["B", "C", "N"], [], {"b": "B", "cs": "List[C]", "n": "N"}),
                                                                  ("Child", [], [("P", [])], {"own": "str"})],
                                 "queries": ["Child"]},
        "bare_base_same_vars": {"classes": [("Env", ["T", "N"], [], {"payload": "T", "attempts": "List[N]"}),
                                            ("Reply", ["T", "N"], [("Env", [])], {"own": "T", "n_own": "N"})],
                                "queries": ["Reply[str, bool]", "Reply[Decimal, int]"]},
        "bare_base_same_vars_attrs": {"kind": "attrs", "classes": [("Env", ["T", "N"], [], {"payload": "T", "attempts": "List[N]"}),
                                                                   ("Reply", ["T", "N"], [("Env", [])], {"own": "T"})],
                                      "queries": ["Reply[str, bool]"]},
        # an output-only member (init=False) typed with a variable, inherited through a parametrised base: loader and dumper of one
        # retort are requested one after the other (both orders)
        "out_only_member": {"classes": [("Tr", ["T"], [], {"value": "T", "seen": "Optional[T] = field(init=False, default=None)"}),
                                        ("TrDate", [], [("Tr", ["Decimal"])], {"note": "str"}),
                                        ("TrG", ["U"], [("Tr", ["List[U]"])], {})],
                            "queries": ["TrDate", "TrG[int]", "Tr[str]"]},
        "two_bases": {"classes": [("A", ["T"], [], {"a": "T"}), ("M", ["U"], [], {"m": "U"}),
                                  ("B", ["T", "U"], [("A", ["T"]), ("M", ["U"])], {"own": "Dict[T, U]"})],
                      "queries": ["B[int, str]", "B[str, float]"]},
    }
    if tier != "quick":
        import random
        rnd = random.Random(seed + 16)
        CONC = ["int", "str", "bool", "float", "Decimal", "bytes"]
        TV = ["T", "U", "V"]

        def texpr(params):
            base = rnd.choice(params + CONC) if params else rnd.choice(CONC)
            c = rnd.random()
            if c < 0.55:
                return base
            if c < 0.7:
                return f"List[{base}]"
            if c < 0.8:
                return f"Optional[{base}]"
            return f"Dict[str, {base}]"
        for i in range(120):
            classes = []
            depth = rnd.randint(1, 4)
            fcount = 0
            for lvl in range(depth):
                name = f"K{lvl}"
                params = rnd.sample(TV, rnd.randint(0 if lvl > 0 else 1, 2))
                bases = []
                if lvl > 0:
                    pname, pparams, _, _ = classes[-1]
                    bases = [(pname, [texpr(params) for _ in pparams])]
                fields = {}
                for _ in range(rnd.randint(0 if lvl > 0 else 1, 2)):
                    # sometimes re-annotate an inherited field (shadowing)
                    inherited = [f for c in classes for f in c[3]]
                    if inherited and rnd.random() < 0.25:
                        fname = rnd.choice(inherited)
                    else:
                        fname = f"f{fcount}"
                        fcount += 1
                    fields[fname] = texpr(params)
                classes.append((name, params, bases, fields))
            queries = []
            for name, params, _, _ in classes[-2:]:
                for _ in range(2):
                    queries.append(f"{name}[{', '.join(rnd.choice(CONC) for _ in params)}]" if params else name)
            specs[f"rand{i}"] = {"classes": classes, "queries": sorted(set(queries))}
        # random diamonds: a root, two chains over it (each level passes through or re-annotates a root field), a join
        for i in range(60):
            classes = [("R", ["T"], [], {"x": "T", "y": "T"})]
            tips = []
            for br in "PQ":
                prev = "R"
                for lvl in range(rnd.randint(1, 3)):
                    name = f"{br}{lvl}"
                    fields = {}
                    if rnd.random() < 0.4:
                        fields[rnd.choice(["x", "y"])] = rnd.choice(["List[T]", "Optional[T]", "Dict[str, T]", "str"])
                    classes.append((name, ["T"], [(prev, ["T"])], fields))
                    prev = name
                tips.append(prev)
            if rnd.random() < 0.5:
                tips.reverse()
            a1, a2 = rnd.sample(CONC, 2)
            classes.append(("J", [], [(tips[0], [a1]), (tips[1], [a2])], {}))
            classes.append(("JG", ["U"], [(tips[0], ["U"]), (tips[1], [a2])], {"own": "U"}))
            specs[f"rdiamond{i}"] = {"classes": classes, "queries": ["J", f"JG[{rnd.choice(CONC)}]"]}
    for sname, spec in specs.items():
        src = GENERIC_PRELUDE
        for name, params, bases, fields in spec["classes"]:
            bl = [f"{b}[{', '.join(a)}]" if a else b for b, a in bases]
            if params:
                bl.append(f"Generic[{', '.join(params)}]")
            body = "\n".join(f"    {f}: {t}" for f, t in fields.items()) or "    pass"
            if spec.get("kind") == "typeddict":
                if not bases:
                    bl.insert(0, "TypedDict")
                src += f"class {name}({', '.join(bl)}):\n{body}\n"
                continue
            if spec.get("kind") == "namedtuple":
                bl.insert(0, "NamedTuple")
                src += f"class {name}({', '.join(bl)}):\n{body}\n"
                continue
            if spec.get("kind") == "pydantic":
                if not bases:
                    bl.insert(0, "PydBaseModel")
                src += f"class {name}({', '.join(bl)}):\n{body}\n"
                continue
            if spec.get("kind") == "attrs":
                if name in spec.get("custom_init", ()):
                    body += ("\n    def __init__(self, " + ", ".join(f"{f}: {t}" for f, t in fields.items()) + "):\n"
                             "        self.__attrs_init__(" + ", ".join(f"{f}={f}" for f in fields) + ")")
                src += f"@attrs_define\nclass {name}" + (f"({', '.join(bl)})" if bl else "") + f":\n{body}\n"
                continue
            src += f"@dataclass\nclass {name}" + (f"({', '.join(bl)})" if bl else "") + f":\n{body}\n"
        _KIND_COUNTER[0] += 1
        mod = types.ModuleType(f"generics_family_{_KIND_COUNTER[0]}")
        sys.modules[mod.__name__] = mod
        try:
            exec(src, mod.__dict__)     # class definitions only
        except Exception as e:
            emit({"kind": "generics", "spec": sname, "harness_error": f"{type(e).__name__}: {e}", "trace": src[-400:]})
            continue
        for q in spec["queries"]:
            rec = {"kind": "generics", "spec": sname, "classes": spec["classes"], "query": q}
            try:
                tp = eval(q, mod.__dict__)      # builds the parametrised alias only
                # the same two products requested from ONE retort, in both orders (errors only; the bindings are audited below)
                seq = {}
                for order in (("loader", "dumper"), ("dumper", "loader")):
                    shared = Retort(recipe=[CodeGenAccumulator()])
                    for what in order:
                        try:
                            getattr(shared, "get_" + what)(tp)
                            seq["->".join(order) + ":" + what] = None
                        except Exception as e:  # noqa: BLE001
                            seq["->".join(order) + ":" + what] = type(e).__name__
                rec["sequential"] = seq
                for what in ("loader", "dumper"):
                    acc = CodeGenAccumulator()
                    retort = Retort(recipe=[acc])
                    try:
                        getattr(retort, "get_" + what)(tp)
                        err = None
                    except Exception as e:
                        err = type(e).__name__
                    top = None
                    for r, d in acc.list:
                        if r.last_loc.type is tp or r.last_loc.type == tp:
                            top = d
                    if top is None and acc.list:
                        top = acc.list[-1][1]
                    binds = {}
                    if top is not None:
                        for k, v in top.namespace.items():
                            if k.startswith(("g_loader_", "g_dumper_")):
                                binds[k[2:]] = describe_callable(v)
                    rec[what] = {"error": err, "source": top.source if top is not None else None, "bindings": binds}
            except Exception as e:
                rec["harness_error"] = f"{type(e).__name__}: {e}"
                rec["trace"] = traceback.format_exc()[-500:]
            emit(rec)


# ----------------------------------------------------------------------------------------------------------------
# enum / flag table family (C18): the FACTORIES of the five providers run (creation stage), the tables the handed-out
# closures captured are read from their cells; no loader or dumper is ever called

def _enc_enumish(v, depth=0):
    import enum
    if isinstance(v, enum.Enum):
        return {"m": type(v).__name__ + "." + str(v.name), "val": repr(v.value), "cls": type(v).__name__}
    t = type(v)
    if v is None:
        return {"none": True, "r": "None"}
    if t is bool:
        return {"b": v, "r": repr(v)}
    if t is int:
        return {"i": v, "r": repr(v)}
    if t is str:
        return {"s": v, "r": repr(v)}
    if depth < 3 and isinstance(v, (dict, MappingProxyType)):
        return {"d": [[_enc_enumish(k, depth + 1), _enc_enumish(x, depth + 1)] for k, x in v.items()], "r": repr(v)[:80]}
    if depth < 3 and isinstance(v, (list, tuple)):
        return {"l": [_enc_enumish(x, depth + 1) for x in v], "t": t.__name__, "r": repr(v)[:80]}
    if isinstance(v, type):
        return {"cls": v.__name__}
    return {"r": repr(v)[:80], "t": t.__name__}


def _cell_filled(c):
    try:
        c.cell_contents
        return True
    except ValueError:
        return False


def _cells(fn):
    if fn is None or not hasattr(fn, "__code__"):
        return {"not_a_function": repr(fn)[:80], "name": getattr(fn, "__name__", None),
                "module": getattr(fn, "__module__", None)}
    out = {}
    for name, cell in zip(fn.__code__.co_freevars, fn.__closure__ or ()):
        try:
            out[name] = _enc_enumish(cell.cell_contents)
        except ValueError:
            out[name] = {"empty": True}
    return {"cells": out, "name": fn.__name__}


def enumtables_family(tier, seed):
    import enum
    from enum import Enum, Flag, IntEnum, IntFlag

    from adaptix import NameStyle
    from adaptix._internal.morphing import enum_provider as ep
    from adaptix._internal.provider.essential import CannotProvide

    class Color(Enum):
        RED = 1
        GREEN_LIGHT = 2
        BLUE_ = 3

    class Crossed(str, Enum):   # the value of one member is the name of another one
        A = "B"
        B = "x"
        C_D = "A"

    class Other(str, Enum):     # homonyms of Crossed with hash-equal values
        A = "B"
        B = "x"

    class Num(IntEnum):
        ZERO = 0
        ONE = 1
        TWO = 2
        UNO = 1                 # alias

    class Mixed(Enum):
        N = None
        T = (1, 2)
        S = "s"
        FALSE = False

    class Unhashable(Enum):
        L = [1]
        M = {"a": 1}

    class Perm(Flag):
        R = 4
        W = 2
        X = 1

    class WithZero(Flag):
        NONE = 0
        A = 1
        B_FLAG = 2

    class Compound(Flag):
        A = 1
        B = 2
        AB = 3
        C = 4
        ALL = 7

    class MultiBit(Flag):
        A = 1
        BC = 6

    class IPerm(IntFlag):
        R = 4
        W = 2
        X = 1
        RWX = 7

    class Aliased(Flag):
        A = 1
        B = 2
        ALSO_A = 1

    class Skipped(Flag):
        A = 1
        C = 4

    class Saison(Enum):         # identifiers are not ASCII-only
        ÉTÉ_CHAUD = 1
        ÜBERGANG = 2
        ПОЗДНЯЯ_ОСЕНЬ = 3

    class Droit(Flag):
        LIRE_TOUT = 1
        ÉCRIRE = 2

    enums = [Color, Crossed, Num, Mixed, Unhashable, Saison]
    flags = [Perm, WithZero, Compound, MultiBit, IPerm, Aliased, Skipped, Droit]
    if tier == "thorough":
        import random
        rnd = random.Random(seed)
        for k in range(12):
            n = rnd.randint(1, 5)
            names = rnd.sample(["A", "B_B", "C", "D_E_F", "G_", "H", "I_J"], n)
            bits = rnd.sample([1, 2, 4, 8, 16], n)
            body = {nm: b for nm, b in zip(names, bits)}
            if rnd.random() < 0.5 and n >= 2:
                body["COMBO"] = bits[0] | bits[1]
            if rnd.random() < 0.3:
                body["NIL"] = 0
            flags.append(Flag(f"Rnd{k}", body))

    def members_of(cls):
        return [[name, m.name, repr(m.value), m.value if type(m.value) in (int, bool) else None]
                for name, m in cls.__members__.items()]

    def gens(cls):
        first = next(iter(cls.__members__.values()))
        out = [("plain", {}, {}), ("upper", {"name_style": NameStyle.UPPER_SNAKE}, {"style": "upper_snake"}),
               ("camel", {"name_style": NameStyle.CAMEL}, {"style": "camel"}),
               ("kebab", {"name_style": NameStyle.LOWER_KEBAB}, {"style": "lower_kebab"}),
               ("map_name", {"map": {first.name: "first!"}}, {"by_name": {first.name: "first!"}}),
               ("map_member", {"map": {first: "1st"}, "name_style": NameStyle.CAMEL},
                {"by_member": {first.name: "1st"}, "style": "camel"}),
               ("map_empty", {"map": {first: ""}}, {"by_member": {first.name: ""}}),
               ("map_foreign", {"map": {Other.A: "foreign", Other.B: "foreign2"}}, {}),
               ("map_absent_name", {"map": {"NO_SUCH": "zzz"}}, {})]
        return out

    def attempt(f, *args, **kwargs):
        # a factory whose signature has moved is a harness problem (exit 2), not a refusal of the class
        import inspect
        try:
            inspect.signature(f).bind(*args, **kwargs)
        except TypeError as e:
            return {"harness_error": f"{getattr(f, '__qualname__', f)}: {e}"}
        try:
            return {"fn": _cells(f(*args, **kwargs))}
        except CannotProvide as e:
            return {"refused": str(getattr(e, "message", e))[:120]}
        except Exception as e:  # noqa: BLE001
            return {"error": f"{type(e).__name__}: {e}"[:200]}

    for cls in enums + flags:
        is_flag = issubclass(cls, Flag)
        base = {"kind": "enumtable", "cls": cls.__name__, "flag": is_flag, "members": members_of(cls)}
        for gname, kwargs, odesc in gens(cls):
            gen = ep.ByNameEnumMappingGenerator(**kwargs)
            if not is_flag:
                prov = ep.EnumNameProvider(gen)
                emit({**base, "provider": "name", "cfg": gname, "oracle": odesc,
                      "loader": attempt(prov._make_loader, cls), "dumper": attempt(prov._make_dumper, cls)})
            else:
                for compound in (True, False):
                    prov = ep.FlagByListProvider(gen, allow_compound=compound)
                    emit({**base, "provider": "flag_list", "cfg": gname, "oracle": odesc, "allow_compound": compound,
                          "loader": attempt(prov._make_loader, cls, strict_coercion=True),
                          "dumper": attempt(prov._make_dumper, cls)})
        if not is_flag:
            prov = ep.EnumExactValueProvider()
            emit({**base, "provider": "exact", "cfg": "-", "loader": attempt(prov._make_loader, cls),
                  "dumper": attempt(prov._make_dumper, cls)})
            # enum_by_value: the factories get stand-ins for the loader / dumper of the value type (never called)
            import inspect
            vt = next((b for b in (int, str) if issubclass(cls, b)), int)

            def value_loader_stub(data):
                raise AssertionError("never called")

            def value_dumper_stub(data):
                raise AssertionError("never called")
            vprov = ep.EnumValueProvider(vt)

            def call_with(f, **avail):
                ps = inspect.signature(f).parameters
                return f(**{k: v for k, v in avail.items() if k in ps})
            rec = {**base, "provider": "value", "cfg": vt.__name__}
            for side, stub in (("loader", value_loader_stub), ("dumper", value_dumper_stub)):
                try:
                    factory = getattr(vprov, "_make_" + side)
                    avail = dict(enum=cls, value_loader=value_loader_stub, value_dumper=value_dumper_stub)
                    try:
                        inspect.signature(factory).bind(**{k: v for k, v in avail.items() if k in inspect.signature(factory).parameters})
                    except TypeError as e:
                        rec[side] = {"harness_error": f"EnumValueProvider._make_{side}: {e}"}
                        continue
                    fn = call_with(factory, **avail)
                    rec[side] = {"is_value_codec": fn is stub,
                                 "holds_value_codec": any(c.cell_contents is stub for c in (getattr(fn, "__closure__", None) or ())
                                                          if _cell_filled(c))}
                except Exception as e:  # noqa: BLE001
                    rec[side] = {"error": f"{type(e).__name__}: {e}"[:200]}
            emit(rec)
        else:
            prov = ep.FlagByExactValueProvider()
            emit({**base, "provider": "flag_exact", "cfg": "-", "loader": attempt(prov._make_loader, cls)})


def outonly_family(tier, seed):
    """models whose input and output shapes differ (a dataclass field with init=False is dumped but not loaded): the loader and
    the dumper of one retort must still agree on the place of every field both of them handle (C01).  Nothing is called."""
    import dataclasses

    from adaptix import DebugTrail, Retort, name_mapping
    from adaptix._internal.morphing.model.basic_gen import CodeGenAccumulator

    def models():
        @dataclasses.dataclass
        class Mid:
            a: int
            b: int = dataclasses.field(init=False, default=0)
            c: int = dataclasses.field(kw_only=True)

        @dataclasses.dataclass
        class Tail:
            a: int
            c: int
            b: int = dataclasses.field(init=False, default=0)

        @dataclasses.dataclass
        class Head:
            b: int = dataclasses.field(init=False, default=0)
            a: int = dataclasses.field(kw_only=True)
            c: int = dataclasses.field(kw_only=True)
        return {"Mid": Mid, "Tail": Tail, "Head": Head}

    cfgs = [{}, {"as_list": True}, {"as_list": True, "skip": ["b"]}, {"map": {"a": "x", "c": ("n", "c")}},
            {"map": {"a": 1, "c": 0}}]
    idx = 0
    for mname, M in models().items():
        for cfg in cfgs:
            idx += 1
            try:
                acc = CodeGenAccumulator()
                retort = Retort(recipe=[name_mapping(M, **cfg), acc], debug_trail=DebugTrail.DISABLE)
                out = {}
                for what in ("loader", "dumper"):
                    before = len(acc.list)
                    try:
                        getattr(retort, "get_" + what)(M)
                        err = None
                    except Exception as e:  # noqa: BLE001
                        err = type(e).__name__
                    out[what] = {"error": err, "sources": [d.source for r, d in acc.list[before:] if r.last_loc.type is M]}
                emit({"kind": "layoutpipe_outonly", "idx": f"outonly:{mname}:{idx}", "cfg": {"model": mname, "nms": [repr(cfg)]},
                      "loader": out["loader"], "dumper": out["dumper"]})
            except Exception as e:  # noqa: BLE001
                emit({"kind": "layoutpipe_outonly", "idx": f"outonly:{mname}:{idx}", "cfg": {"model": mname, "nms": [repr(cfg)]},
                      "harness_error": f"{type(e).__name__}: {e}", "trace": traceback.format_exc()[-600:]})


FAMILIES = {"soundness": soundness_family, "generics": generics_family,
            "loader": loader_family, "dumper": dumper_family, "literal": literal_family, "hostile": hostile_family,
            "broach": broach_family, "converter": converter_family, "convpipe": convpipe_family,
            "layoutpipe": layoutpipe_family, "kinds": kinds_family, "enumtables": enumtables_family, "outonly": outonly_family, "stylepipe": stylepipe_family}


def main():
    tier = sys.argv[1]
    seed = int(sys.argv[2])
    kinds = sys.argv[3].split(",")
    import adaptix
    prov = install_line_provenance()
    emit({"kind": "meta", "adaptix_file": adaptix.__file__, "provenance": prov})
    for k in kinds:
        if k in FAMILIES:
            FAMILIES[k](tier, seed)
        else:
            mod = __import__("gen_child_conv")
            getattr(mod, k + "_family")(tier, seed, emit, tag, describe, _KEEP)
    emit({"kind": "done"})


if __name__ == "__main__":
    try:
        main()
    except Exception as e:  # noqa: BLE001
        emit({"kind": "fatal", "error": f"{type(e).__name__}: {e}", "trace": traceback.format_exc()[-1500:]})
        sys.exit(3)
