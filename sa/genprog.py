"""Tier G (parent side): obtain the programs the repository's generators emit for an enumerated family and analyse
their *text* statically.  Only `produce_code` and the literal renderers run (in a child process); the emitted
closures are never compiled or called by us.
"""
from __future__ import annotations

import ast
import json
import os
import re
import subprocess
import sys
from dataclasses import dataclass, field
from pathlib import Path
from typing import Any, Dict, Iterator, List, Optional, Tuple

from .core import AnalysisError, CheckResult, Finding, ModuleInfo, Repo, norm

HERE = Path(__file__).resolve().parent
_CACHE: Dict[Tuple[str, str, int, str], List[dict]] = {}


def run_child(repo: Repo, tier: str, seed: int, kinds: str) -> List[dict]:
    key = (str(repo.root), tier, seed, kinds)
    if key in _CACHE:
        return _CACHE[key]
    env = dict(os.environ)
    env["PYTHONPATH"] = str(repo.src_root) + os.pathsep + str(HERE)
    env["PYTHONDONTWRITEBYTECODE"] = "1"
    env["PYTHONHASHSEED"] = "0"
    try:
        p = subprocess.run(["/venv/bin/python", str(HERE / "gen_child.py"), tier, str(seed), kinds],
                           capture_output=True, text=True, env=env, timeout=600, cwd="/")
    except subprocess.TimeoutExpired:
        raise AnalysisError("tier G child timed out")
    recs = []
    for line in p.stdout.splitlines():
        try:
            recs.append(json.loads(line))
        except json.JSONDecodeError:
            continue
    fatal = [r for r in recs if r.get("kind") == "fatal"]
    if fatal or p.returncode != 0 or not recs or recs[-1].get("kind") != "done":
        msg = fatal[0]["error"] + " | " + fatal[0].get("trace", "")[-400:] if fatal else p.stderr[-600:]
        raise AnalysisError(f"tier G harness cannot drive the generators (API moved?): {msg}")
    meta = recs[0]
    af = meta.get("adaptix_file", "")
    if not af.startswith(str(repo.src_root)):
        raise AnalysisError(f"tier G child imported adaptix from {af}, not from {repo.src_root}")
    _CACHE[key] = recs
    return recs


@dataclass
class GenProg:
    rec: dict
    tree: ast.Module
    fn: ast.FunctionDef
    index: int

    @property
    def kind(self) -> str:
        return self.rec["kind"]

    @property
    def ident(self) -> str:
        r = self.rec
        parts = [r["kind"], r.get("shape_name", ""), r.get("crown_name", ""), str(r.get("extra_move")),
                 _policy(r.get("crown")), r.get("debug_trail", "")]
        if "strict" in r:
            parts.append("strict" if r["strict"] else "lax")
        return "/".join(parts)

    def origin_of(self, lineno: int) -> str:
        """generator file:function that emitted the given (1-based) line of the program"""
        o = self.rec.get("origins")
        if o and 1 <= lineno <= len(o) and o[lineno - 1]:
            return o[lineno - 1]
        return "generated:?"

    def origin_key(self, lineno: int) -> Tuple[str, str, int]:
        o = self.origin_of(lineno)
        parts = o.split(":")
        if len(parts) >= 3:
            return parts[0], parts[1], int(parts[2]) if parts[2].isdigit() else 0
        return "generated:" + self.kind, "?", 0


def _policy(c) -> str:
    if not isinstance(c, dict):
        return ""
    if c.get("t") in ("dict", "list"):
        return c.get("extra", "") or ""
    return ""


def parse_programs(recs: List[dict], kind: str) -> List[GenProg]:
    out = []
    for i, r in enumerate(recs):
        if r.get("kind") != kind:
            continue
        if r.get("error"):
            raise AnalysisError(f"generator raised on a valid configuration ({r.get('shape')}/{r.get('crown')}): "
                                f"{r['error']}")
        try:
            tree = ast.parse(r["source"])
        except SyntaxError as e:
            raise AnalysisError(f"emitted program does not parse ({r.get('shape_name')}/{r.get('crown_name')}): {e}")
        fn = tree.body[0]
        if not isinstance(fn, ast.FunctionDef):
            raise AnalysisError("emitted program is not a single function definition")
        out.append(GenProg(r, tree, fn, i))
    return out


def abstract_construct(text: str) -> str:
    """Normalise a generated statement so that the same generator construct gets the same key across programs:
    path suffixes, field ids and keys are replaced by placeholders."""
    t = re.sub(r"\b(data|extra|known_keys|required_keys|has_not_found_error|result|placeholder|sieve|dfl)_\d+\b", r"\1_N", text)
    t = re.sub(r"\b(f|r|loader|dumper|dfl|accessor_getter|trail_element|access_error)_[A-Za-z]\w*\b", r"\1_F", t)
    t = re.sub(r"'(?:[^'\\]|\\.)*'", "'K'", t)
    t = re.sub(r"\b\d+\b", "N", t)
    return t


# ------------------------------------------------------------------------------------------------ prelude
def prelude_for(repo: Repo, ns: Dict[str, dict]) -> Tuple[str, List[str]]:
    """Python text that binds every namespace name of a generated program to something the resolver understands.
    Returns (prelude, user_code_names)."""
    lines = ["mediator = None"]
    user: List[str] = []
    exc_by_name = {}
    for ci in repo.all_classes():
        exc_by_name.setdefault(ci.name, ci)
    for name, d in ns.items():
        tag = d.get("tag", "")
        if tag.startswith(("loader:", "dumper:")):
            lines.append(f"{name} = mediator.mandatory_provide(None)")
        elif tag == "as_is_stub":
            lines.append(f"{name} = lambda x: x")
        elif tag in ("constructor", "saturator", "extractor") or tag.startswith(("sieve:", "factory:")):
            user.append(name)
        elif tag.startswith(("default:", "sievedefault:")):
            lines.append(f"{name} = object()")
        elif "class" in d:
            cls = d["class"]
            mod, _, cname = cls.rpartition(".")
            if mod.startswith("adaptix") and cname in exc_by_name:
                ci = exc_by_name[cname]
                lines.append(f"from {ci.module.name} import {cname} as {name}")
            else:
                lines.append(f"from {mod} import {cname} as {name}")
        elif "callable" in d and d["callable"].startswith("adaptix.") and d["callable"].rpartition(".")[2].isidentifier():
            mod, _, fname = d["callable"].rpartition(".")
            lines.append(f"from {mod} import {fname} as {name}")
        elif d["type"] in ("builtins.set", "builtins.frozenset") and "items" in d:
            items = ", ".join(repr(x) for x in d["items"])
            lines.append(f"{name} = {{{items}}}" if d["items"] else f"{name} = set()")
        elif d["type"] == "builtins.str":
            lines.append(f"{name} = 'text'")
        elif d["type"] == "builtins.object":
            lines.append(f"{name} = object()")
        elif d["type"] == "builtins.type" or d["type"] == "abc.ABCMeta":
            lines.append(f"{name} = object")
        elif "callable" in d:
            user.append(name)
        else:
            lines.append(f"{name} = object()")
    return "\n".join(lines) + "\n", user


def synthetic_module(repo: Repo, prog: GenProg) -> Tuple[ModuleInfo, ast.FunctionDef, List[str], int]:
    prelude, user = prelude_for(repo, prog.rec.get("namespace", {}))
    offset = prelude.count("\n")
    m = repo.synthetic_module(f"{prog.kind}_{prog.index}", prelude + prog.rec["source"])
    fn = [n for n in m.tree.body if isinstance(n, ast.FunctionDef)][-1]
    return m, fn, user, offset


# ------------------------------------------------------------------------------------------------ C04 on tier G
def c04_checks(repo: Repo, tier: str, res: CheckResult, eng, seed: int) -> None:
    from .esc import USER, Undetermined
    from .values import FnCtx
    from .props.c04 import allowed, collect_rule
    recs = run_child(repo, tier, seed, "loader")
    progs = parse_programs(recs, "loader")
    n = 0
    sampled = 0
    for prog in progs:
        m, fn, user, offset = synthetic_module(repo, prog)
        fctx = FnCtx(fn, m, None, None)
        eng.user_names = set(user)
        try:
            esc, _ = eng.analyze(fctx)
        except Undetermined as e:
            raise AnalysisError(f"ESC undetermined for generated program {prog.ident}: {e}")
        finally:
            eng.user_names = set()
        n += 1
        res.evaluated("G:" + prog.ident, True)
        bad = {k: o for k, o in esc.items() if not allowed(eng.H, k[0])}
        if sampled < 3:
            res.sample({"generated_program": prog.ident, "may_escape": sorted({k[0] for k in esc}),
                        "verdict": "violation" if bad else "ok"}, limit=20)
            sampled += 1
        for (exc, _q, _c), o in sorted(bad.items()):
            gfile, gfunc, gline = prog.origin_key(o.line - offset)
            res.add(Finding(
                "C04", "ESC.generated-escape", gfile, gfunc, f"{abstract_construct(o.construct)} -> {exc}",
                f"generated model loader ({prog.ident}): `{o.construct}` may raise {exc} on invalid input and no "
                f"enclosing handler translates it (emitted by {gfile}:{gfunc}:{gline})",
                gline, extra={"program": prog.ident},
            ))
        # collect rule on the emitted program
        def rekey(h, appended, construct, prog=prog, offset=offset):
            # the collecting statement, not the `except` line, identifies the generator construct
            gfile, gfunc, gline = prog.origin_key(appended.lineno - offset)
            return gfile, gfunc, gline, abstract_construct(construct)
        collect_rule(repo, eng, fn, m, "model_loader", res, rekey=rekey)
    res.count("ESC.generated-model-loaders", n, 200)


def c19_checks(repo: Repo, tier: str, res: CheckResult, seed: int) -> None:
    """hostile identifier / key family on emitted programs (filled in with the C03 translation validation)"""
    return


def c06_checks(repo: Repo, tier: str, res: CheckResult, seed: int) -> None:
    return


def c05_checks(repo: Repo, tier: str, res: CheckResult, seed: int) -> None:
    return
