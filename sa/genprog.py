"""Tier G placeholder (filled in later)."""


def c04_checks(repo, tier, res, eng, seed):
    return
