"""Tier G (parent side): obtain the programs the repository's generators emit for an enumerated family and analyse
their *text* statically.  Only `produce_code` and the literal renderers run (in a child process); the emitted
closures are never compiled or called by us.
"""
from __future__ import annotations

import ast
import json
import os
import re
import subprocess
import sys
from dataclasses import dataclass, field
from pathlib import Path
from typing import Any, Dict, Iterator, List, Optional, Set, Tuple

from .core import AnalysisError, CheckResult, Finding, ModuleInfo, Repo, norm

HERE = Path(__file__).resolve().parent
_CACHE: Dict[Tuple[str, str, int, str], List[dict]] = {}


def run_child(repo: Repo, tier: str, seed: int, kinds: str) -> List[dict]:
    key = (str(repo.root), tier, seed, kinds)
    if key in _CACHE:
        return _CACHE[key]
    env = dict(os.environ)
    env["PYTHONPATH"] = str(repo.src_root) + os.pathsep + str(HERE)
    env["PYTHONDONTWRITEBYTECODE"] = "1"
    env["PYTHONHASHSEED"] = "0"
    try:
        p = subprocess.run(["/venv/bin/python", str(HERE / "gen_child.py"), tier, str(seed), kinds],
                           capture_output=True, text=True, env=env, timeout=600, cwd="/")
    except subprocess.TimeoutExpired:
        raise AnalysisError("tier G child timed out")
    recs = []
    for line in p.stdout.splitlines():
        try:
            recs.append(json.loads(line))
        except json.JSONDecodeError:
            continue
    fatal = [r for r in recs if r.get("kind") == "fatal"]
    if fatal or p.returncode != 0 or not recs or recs[-1].get("kind") != "done":
        msg = fatal[0]["error"] + " | " + fatal[0].get("trace", "")[-400:] if fatal else p.stderr[-600:]
        raise AnalysisError(f"tier G harness cannot drive the generators (API moved?): {msg}")
    meta = recs[0]
    af = meta.get("adaptix_file", "")
    if not af.startswith(str(repo.src_root)):
        raise AnalysisError(f"tier G child imported adaptix from {af}, not from {repo.src_root}")
    _CACHE[key] = recs
    return recs


@dataclass
class GenProg:
    rec: dict
    tree: ast.Module
    fn: ast.FunctionDef
    index: int

    @property
    def kind(self) -> str:
        return self.rec["kind"]

    @property
    def ident(self) -> str:
        r = self.rec
        parts = [r["kind"], r.get("shape_name", ""), r.get("crown_name", ""), str(r.get("extra_move")),
                 _policy(r.get("crown")), r.get("debug_trail", "")]
        if "strict" in r:
            parts.append("strict" if r["strict"] else "lax")
        return "/".join(parts)

    def origin_of(self, lineno: int) -> str:
        """generator file:function that emitted the given (1-based) line of the program"""
        o = self.rec.get("origins")
        if o and 1 <= lineno <= len(o) and o[lineno - 1]:
            return o[lineno - 1]
        return "generated:?"

    def origin_key(self, lineno: int) -> Tuple[str, str, int]:
        o = self.origin_of(lineno)
        parts = o.split(":")
        if len(parts) >= 3:
            return parts[0], parts[1], int(parts[2]) if parts[2].isdigit() else 0
        return "generated:" + self.kind, "?", 0


def _policy(c) -> str:
    if not isinstance(c, dict):
        return ""
    if c.get("t") in ("dict", "list"):
        return c.get("extra", "") or ""
    return ""


def parse_programs(recs: List[dict], kind: str) -> List[GenProg]:
    out = []
    for i, r in enumerate(recs):
        if r.get("kind") != kind:
            continue
        if r.get("error"):
            raise AnalysisError(f"generator raised on a valid configuration ({r.get('shape')}/{r.get('crown')}): "
                                f"{r['error']}")
        try:
            tree = ast.parse(r["source"])
        except SyntaxError as e:
            raise AnalysisError(f"emitted program does not parse ({r.get('shape_name')}/{r.get('crown_name')}): {e}")
        fn = tree.body[0]
        if not isinstance(fn, ast.FunctionDef):
            raise AnalysisError("emitted program is not a single function definition")
        out.append(GenProg(r, tree, fn, i))
    return out


def abstract_construct(text: str) -> str:
    """Normalise a generated statement so that the same generator construct gets the same key across programs:
    path suffixes, field ids and keys are replaced by placeholders."""
    t = re.sub(r"\b(data|extra|known_keys|required_keys|has_not_found_error|result|placeholder|sieve|dfl)_\d+\b", r"\1_N", text)
    t = re.sub(r"\b(f|r|loader|dumper|dfl|accessor_getter|trail_element|access_error)_[A-Za-z]\w*\b", r"\1_F", t)
    t = re.sub(r"'(?:[^'\\]|\\.)*'", "'K'", t)
    t = re.sub(r"\b\d+\b", "N", t)
    return t


# ------------------------------------------------------------------------------------------------ prelude
def prelude_for(repo: Repo, ns: Dict[str, dict]) -> Tuple[str, List[str]]:
    """Python text that binds every namespace name of a generated program to something the resolver understands.
    Returns (prelude, user_code_names)."""
    lines = ["mediator = None"]
    user: List[str] = []
    exc_by_name = {}
    for ci in repo.all_classes():
        exc_by_name.setdefault(ci.name, ci)
    for name, d in ns.items():
        tag = d.get("tag", "")
        if tag.startswith(("loader:", "dumper:")):
            lines.append(f"{name} = mediator.mandatory_provide(None)")
        elif tag == "as_is_stub":
            lines.append(f"{name} = lambda x: x")
        elif tag in ("constructor", "saturator", "extractor") or tag.startswith(("sieve:", "factory:")):
            user.append(name)
        elif tag.startswith(("default:", "sievedefault:")):
            lines.append(f"{name} = object()")
        elif "class" in d:
            cls = d["class"]
            mod, _, cname = cls.rpartition(".")
            if mod.startswith("adaptix") and cname in exc_by_name:
                ci = exc_by_name[cname]
                lines.append(f"from {ci.module.name} import {cname} as {name}")
            else:
                lines.append(f"from {mod} import {cname} as {name}")
        elif "callable" in d and d["callable"].startswith("adaptix.") and d["callable"].rpartition(".")[2].isidentifier():
            mod, _, fname = d["callable"].rpartition(".")
            lines.append(f"from {mod} import {fname} as {name}")
        elif d["type"] in ("builtins.set", "builtins.frozenset") and "items" in d:
            items = ", ".join(repr(x) for x in d["items"])
            lines.append(f"{name} = {{{items}}}" if d["items"] else f"{name} = set()")
        elif d["type"] == "builtins.str":
            lines.append(f"{name} = 'text'")
        elif d["type"] == "builtins.object":
            lines.append(f"{name} = object()")
        elif d["type"] == "builtins.type" or d["type"] == "abc.ABCMeta":
            lines.append(f"{name} = object")
        elif "callable" in d:
            user.append(name)
        else:
            lines.append(f"{name} = object()")
    return "\n".join(lines) + "\n", user


def synthetic_module(repo: Repo, prog: GenProg) -> Tuple[ModuleInfo, ast.FunctionDef, List[str], int]:
    prelude, user = prelude_for(repo, prog.rec.get("namespace", {}))
    offset = prelude.count("\n")
    m = repo.synthetic_module(f"{prog.kind}_{prog.index}", prelude + prog.rec["source"])
    fn = [n for n in m.tree.body if isinstance(n, ast.FunctionDef)][-1]
    return m, fn, user, offset


# ------------------------------------------------------------------------------------------------ C04 on tier G
def c04_checks(repo: Repo, tier: str, res: CheckResult, eng, seed: int) -> None:
    from .esc import USER, Undetermined
    from .values import FnCtx
    from .props.c04 import allowed, collect_rule
    recs = run_child(repo, tier, seed, "loader")
    progs = parse_programs(recs, "loader")
    n = 0
    sampled = 0
    for prog in progs:
        m, fn, user, offset = synthetic_module(repo, prog)
        fctx = FnCtx(fn, m, None, None)
        eng.user_names = set(user)
        try:
            esc, _ = eng.analyze(fctx)
        except Undetermined as e:
            raise AnalysisError(f"ESC undetermined for generated program {prog.ident}: {e}")
        finally:
            eng.user_names = set()
        n += 1
        res.evaluated("G:" + prog.ident, True)
        bad = {k: o for k, o in esc.items() if not allowed(eng.H, k[0])}
        if sampled < 3:
            res.sample({"generated_program": prog.ident, "may_escape": sorted({k[0] for k in esc}),
                        "verdict": "violation" if bad else "ok"}, limit=20)
            sampled += 1
        for (exc, _q, _c), o in sorted(bad.items()):
            gfile, gfunc, gline = prog.origin_key(o.line - offset)
            res.add(Finding(
                "C04", "ESC.generated-escape", gfile, gfunc, f"{abstract_construct(o.construct)} -> {exc}",
                f"generated model loader ({prog.ident}): `{o.construct}` may raise {exc} on invalid input and no "
                f"enclosing handler translates it (emitted by {gfile}:{gfunc}:{gline})",
                gline, extra={"program": prog.ident},
            ))
        # collect rule on the emitted program
        def rekey(h, appended, construct, prog=prog, offset=offset):
            # the collecting statement, not the `except` line, identifies the generator construct
            gfile, gfunc, gline = prog.origin_key(appended.lineno - offset)
            return gfile, gfunc, gline, abstract_construct(construct)
        collect_rule(repo, eng, fn, m, "model_loader", res, rekey=rekey)
    res.count("ESC.generated-model-loaders", n, 200)






# ================================================================================================ translation validation
from .genaudit import (DumperSummary, FieldRead, LoaderSummary, audit_dumper, audit_loader, crown_fields, crown_nodes,
                       crown_nones)

_AUDIT_CACHE: Dict[Tuple[str, str, int, str], list] = {}


def audited(repo: Repo, tier: str, seed: int, kind: str):
    key = (str(repo.root), tier, seed, kind)
    if key not in _AUDIT_CACHE:
        recs = run_child(repo, tier, seed, kind)
        progs = parse_programs(recs, kind)
        out = []
        for p in progs:
            summ = audit_loader(p.fn) if kind == "loader" else audit_dumper(p.fn)
            out.append((p, summ))
        _AUDIT_CACHE[key] = out
    return _AUDIT_CACHE[key]


def _suffix_of(var: str) -> str:
    return var.split("_", 1)[1] if "_" in var and var.split("_")[-1].isdigit() else ""


def _gen_finding(prop: str, rule: str, prog: GenProg, lineno: int, construct: str, why: str) -> Finding:
    gfile, gfunc, gline = prog.origin_key(lineno) if lineno else ("generated:" + prog.kind, "?", 0)
    return Finding(prop, rule, gfile, gfunc, abstract_construct(construct)[:200],
                   f"generated model {prog.kind} ({prog.ident}): {why} (emitted by {gfile}:{gfunc}:{gline})",
                   gline, extra={"program": prog.ident, "line": lineno})


def c03_loader_checks(repo: Repo, tier: str, res: CheckResult, seed: int, prop: str = "C03") -> int:
    n = 0
    disagreements = 0
    for prog, S in audited(repo, tier, seed, "loader"):
        rec = prog.rec
        crown = rec["crown"]
        fields = {f["id"]: f for f in rec["fields"]}
        oracle = crown_fields(crown)
        nodes = crown_nodes(crown)
        n += 1
        res.evaluated("G:" + prog.ident, True)
        for msg, line in S.problems:
            raise AnalysisError(f"cannot audit emitted loader {prog.ident}: {msg} (line {line})")
        move = rec.get("extra_move")
        targets = move.split(":")[1].split(",") if move and move.startswith("targets:") else []
        for pth, dec, line in S.absence:
            if dec != "key-missing":
                res.add(_gen_finding(prop, "TV.absence-decision", prog, line, "absence decided by " + dec.split(":")[0],
                                     f"absence of the key at {list(pth) if pth else pth} is decided by `{dec}`, not by a missing-key "
                                     "test: a present value is replaced by the default"))
        for setvar, encl, guard, line in S.forbid_guards:
            if encl:
                res.add(_gen_finding(prop, "TV.forbid-check-conditional", prog, line, "unknown-key check under if " + abstract_construct(encl[0]),
                                     f"the unknown-key check `{setvar} = set(..) - known_keys` runs only when `{encl[0]}`: unknown keys "
                                     "pass unnoticed otherwise (the policy is to reject EXACTLY when there is an unknown key)"))
            if guard != setvar:
                res.add(_gen_finding(prop, "TV.forbid-rejection-guard", prog, line, f"rejection guarded by {guard}",
                                     f"ExtraFieldsLoadError must be raised exactly when `{setvar}` is non-empty, found guard `{guard}`"))
        # (1) every field is read from its crown path, once
        by_field: Dict[str, List[FieldRead]] = {}
        for r in S.reads:
            by_field.setdefault(r.field_id, []).append(r)
        for fid, path in oracle.items():
            rs = [r for r in by_field.get(fid, []) if r.via in ("loader", "as-is")]
            disagreements += 1
            if len(rs) != 1:
                res.add(_gen_finding(prop, "TV.field-read-count", prog, rs[0].lineno if rs else 0, f"field {fid}: {len(rs)} reads",
                                     f"field `{fid}` is extracted {len(rs)} times instead of once"))
                continue
            r = rs[0]
            if r.path != path:
                res.add(_gen_finding(prop, "TV.field-read-path", prog, r.lineno, f"field read at {r.path!r} expected {path!r}".replace(fid, "F"),
                                     f"field `{fid}` is loaded from path {list(r.path) if r.path is not None else None} but the "
                                     f"crown places it at {list(path)}"))
            expect_asis = fid in rec.get("as_is", [])
            if (r.via == "as-is") != expect_asis:
                res.add(_gen_finding(prop, "TV.field-loader", prog, r.lineno, f"{r.via}",
                                     f"field `{fid}` is {'not ' if expect_asis else ''}passed through its field loader"))
            f = fields[fid]
            packed = f["kind"] == "O" and fid not in targets
            want_target = f"packed:{f['param']}" if packed else f"f_{fid}"
            if r.target != want_target:
                res.add(_gen_finding(prop, "TV.field-target", prog, r.lineno, f"{r.target} vs {want_target}".replace(fid, "F"),
                                     f"loaded value of field `{fid}` is stored into {r.target}, expected {want_target}"))
        for fid in by_field:
            if fid not in oracle and fid not in targets and fid != "?":
                res.add(_gen_finding(prop, "TV.unknown-field-read", prog, by_field[fid][0].lineno, "read of unmapped field",
                                     f"field `{fid}` is not in the crown but is extracted"))
        # (2) node variables and key sets
        path_to_var = {p: v for v, p in S.node_vars.items()}
        path_to_var[()] = "data"
        ns = rec["namespace"]
        for path, node in nodes.items():
            if path not in path_to_var:
                if node["map"]:
                    res.add(_gen_finding(prop, "TV.node-missing", prog, 0, f"node {len(path)}", f"crown node at {list(path)} is never extracted"))
                continue
            if node["t"] != "dict":
                continue
            suffix = _suffix_of(path_to_var[path])
            kk = "known_keys" + ("_" + suffix if suffix else "")
            rk = "required_keys" + ("_" + suffix if suffix else "")
            want_known = sorted(node["map"].keys())
            want_req = sorted(k for k, v in node["map"].items() if not (v["t"] == "field" and fields[v["id"]]["kind"] != "R"))
            disagreements += 2
            for name, want in ((kk, want_known), (rk, want_req)):
                got = ns.get(name, {}).get("items")
                if got is None:
                    if want or name.startswith("known"):
                        res.add(_gen_finding(prop, "TV.key-set", prog, 0, f"{name.split('_')[0]} keys constant missing",
                                             f"constant `{name}` for crown node {list(path)} is missing"))
                elif sorted(got) != want:
                    res.add(_gen_finding(prop, "TV.key-set", prog, 0, f"{name.rsplit('_', 1)[0] if suffix else name} mismatch",
                                         f"`{name}` = {sorted(got)} but the crown node {list(path)} has "
                                         f"{'keys' if name.startswith('known') else 'required keys'} {want}"))
        # (3)+(5) extra policies and length checks
        var_to_path = {v: p for p, v in path_to_var.items()}
        collect_any = any(nd.get("extra") == "collect" for nd in nodes.values())
        for path, node in nodes.items():
            var = path_to_var.get(path)
            if var is None:
                continue
            suffix = _suffix_of(var)
            kk = "known_keys" + ("_" + suffix if suffix else "")
            ev = "extra" + ("_" + suffix if suffix else "")
            pol = node.get("extra")
            disagreements += 1
            if node["t"] == "dict":
                forb = [f for f in S.forbid_checks if f[0] == var]
                cop = [c for c in S.extra_copies if c[1] == var]
                if pol == "forbid":
                    if len(forb) != 1 or forb[0][1] != kk:
                        res.add(_gen_finding(prop, "TV.extra-forbid", prog, forb[0][2] if forb else 0, "forbid check",
                                             f"node {list(path)} forbids extra keys but the program does not compare "
                                             f"set({var}) - {kk} exactly once ({forb})"))
                    elif not any(r[0] == "ExtraFieldsLoadError" and r[1] == path for r in S.rejects):
                        res.add(_gen_finding(prop, "TV.extra-forbid", prog, forb[0][2], "forbid error",
                                             f"node {list(path)}: the unknown keys are computed but no ExtraFieldsLoadError "
                                             f"for this node is raised/collected"))
                    if cop:
                        res.add(_gen_finding(prop, "TV.extra-policy-mixed", prog, cop[0][3], "copy under forbid",
                                             f"node {list(path)} forbids extras but also copies them"))
                elif pol == "collect":
                    want_ks = f"set({var}) - {kk}"
                    if len(cop) != 1 or cop[0][0] != ev or cop[0][2] != want_ks:
                        res.add(_gen_finding(prop, "TV.extra-collect", prog, cop[0][3] if cop else 0, "collect loop",
                                             f"node {list(path)} collects extras: expected exactly one item-wise copy of "
                                             f"`{want_ks}` into `{ev}`, found {[(c[0], c[2]) for c in cop]}"))
                    if S.extra_inits.get(ev) != "{}":
                        res.add(_gen_finding(prop, "TV.extra-collect", prog, 0, "extra init",
                                             f"`{ev}` must be created as a fresh `{{}}` in the function body, found "
                                             f"{S.extra_inits.get(ev)!r}"))
                    if forb:
                        res.add(_gen_finding(prop, "TV.extra-policy-mixed", prog, forb[0][2], "forbid under collect",
                                             f"node {list(path)} collects extras but also rejects them"))
                else:
                    if forb or cop:
                        res.add(_gen_finding(prop, "TV.extra-skip", prog, (forb or cop)[0][-1], "extra code under skip",
                                             f"node {list(path)} must ignore unknown keys but the program "
                                             f"{'rejects' if forb else 'copies'} them"))
            else:
                N = len(node["map"])
                lc = sorted((op, k) for v, op, k, _ in S.len_checks if v == var)
                want = sorted([("NotEq", N), ("Lt", N)]) if pol == "forbid" else [("Lt", N)]
                if lc != want:
                    res.add(_gen_finding(prop, "TV.list-length", prog, next((l for v, _, _, l in S.len_checks if v == var), 0),
                                         f"len checks {lc} expected {want}".replace(str(N), "N"),
                                         f"list node {list(path)} with {N} items and extra policy {pol}: length checks are {lc}, "
                                         f"expected {want}"))
        # no policy code for nodes that do not exist
        for f in S.forbid_checks:
            if f[0] not in var_to_path:
                res.add(_gen_finding(prop, "TV.extra-forbid", prog, f[2], "forbid on unknown node", f"forbid check on `{f[0]}`"))
        # (6) extras symmetry: a child's extras may be linked into the parent only when there is something in them
        for parent, key, child, cond, line in S.extra_links:
            disagreements += 1
            if not cond:
                res.add(_gen_finding(prop, "TV.extra-structural-key", prog, line, "extra_N['K'] = extra_N",
                                     f"`{parent}[{key!r}] = {child}` is executed unconditionally: the mapping delivered to the "
                                     "constructor contains the structural key even when the input has no unknown keys at that "
                                     "node (kwargs gets a spurious entry such as {'n': {}})"))
        if sampled_ok(res):
            res.sample({"program": prog.ident, "field_paths": {k: list(v) for k, v in oracle.items()},
                        "reads": [(r.field_id, list(r.path) if r.path is not None else None, r.via, r.target) for r in S.reads],
                        "verdict": "audited"}, limit=20)
    res.coverage["programs"] = res.coverage.get("programs", 0) + n
    res.coverage["disagreements_checked"] = res.coverage.get("disagreements_checked", 0) + disagreements
    return n


def sampled_ok(res: CheckResult) -> bool:
    return sum(1 for s in res.samples if isinstance(s, dict) and "program" in s) < 3


SIEVE_EXPECT = {"dv": "{x} != 7", "dvn": "{x} is not None", "df": "{x} != []"}


def _is_stack_merge(text: Optional[str]) -> bool:
    """{k: v for el in extra_stack for k, v in el.items()}: item-wise copy, later targets override earlier ones"""
    try:
        e = ast.parse(text or "", mode="eval").body
    except SyntaxError:
        return False
    if not isinstance(e, ast.DictComp) or len(e.generators) != 2 or any(g.ifs or g.is_async for g in e.generators):
        return False
    g1, g2 = e.generators
    if not (isinstance(g1.target, ast.Name) and norm(g1.iter) == "extra_stack"):
        return False
    if norm(g2.iter) != f"{g1.target.id}.items()" or not isinstance(g2.target, ast.Tuple) or len(g2.target.elts) != 2:
        return False
    k, v = g2.target.elts
    return isinstance(k, ast.Name) and isinstance(v, ast.Name) and norm(e.key) == k.id and norm(e.value) == v.id


def c03_dumper_checks(repo: Repo, tier: str, res: CheckResult, seed: int, prop: str = "C03") -> int:
    n = 0
    disagreements = 0
    for prog, S in audited(repo, tier, seed, "dumper"):
        rec = prog.rec
        crown = rec["crown"]
        fields = {f["id"]: f for f in rec["fields"]}
        n += 1
        res.evaluated("G:" + prog.ident, True)
        for msg, line in S.problems:
            res.add(_gen_finding(prop, "TV.dumper-shape", prog, line, msg, f"emitted dumper has an unexpected shape: {msg}"))
        oracle = crown_fields(crown)
        nones = crown_nones(crown)
        nodes = crown_nodes(crown)
        ns = rec["namespace"]
        sieves: Dict[Tuple, str] = {}
        for path, node in nodes.items():
            for k, kind in (node.get("sieves") or {}).items():
                sieves[path + (k,)] = kind
        # node kinds
        for path, node in nodes.items():
            disagreements += 1
            got = S.node_kinds.get(path)
            if got != node["t"]:
                res.add(_gen_finding(prop, "TV.dumper-node", prog, 0, f"node kind {got} expected {node['t']}",
                                     f"crown node {list(path)} is a {node['t']} but the program builds {got}"))
        for path, cond in S.node_conds.items():
            if path not in sieves:
                res.add(_gen_finding(prop, "TV.sieve", prog, 0, "conditional container node",
                                     f"the nested node at {list(path)} has no sieve in the crown but is written only when `{cond}`: "
                                     "the container (and every field below it) disappears from the output"))
        # fields
        for fid, path in oracle.items():
            disagreements += 1
            ent = S.tree.get(path)
            optional = fields[fid]["kind"] in ("O", "OI")
            want_kind = "opt-field" if optional else "field"
            if ent is None:
                res.add(_gen_finding(prop, "TV.field-write-path", prog, 0, "field not written",
                                     f"field `{fid}` is never written to its crown path {list(path)}"))
                continue
            if ent[0] != want_kind or ent[1] != fid:
                res.add(_gen_finding(prop, "TV.field-write-path", prog, ent[3], f"{ent[0]} written, expected {want_kind}",
                                     f"crown path {list(path)} holds ({ent[0]}, {ent[1]}) but the crown assigns field `{fid}` to it"))
                continue
            # source of the value
            src = S.field_sources.get(f"opt:{fid}" if optional else f"f_{fid}")
            acc_want = ("item:" + repr(fid)) if fields[fid]["kind"] in ("RI", "OI") else ("attr:" + fid)
            if src is None:
                res.add(_gen_finding(prop, "TV.field-source", prog, ent[3], "no extraction", f"value of field `{fid}` is never extracted"))
            else:
                acc = src[1]
                if acc.startswith("raw:"):
                    raw = S.field_sources.get("r_" + acc[4:])
                    acc = raw[1] if raw else acc
                if acc != acc_want:
                    res.add(_gen_finding(prop, "TV.field-source", prog, src[2], f"{acc.split(':')[0]} access",
                                         f"field `{fid}` is read through `{acc}` but its accessor is `{acc_want}`"))
                if src[3] == (fid in rec.get("as_is", [])):
                    res.add(_gen_finding(prop, "TV.field-dumper", prog, src[2], "dumper application",
                                         f"field `{fid}` is {'not ' if not src[3] else ''}passed through its dumper"))
            # sieve condition
            kind = sieves.get(path)
            x = "value" if optional else f"f_{fid}"
            if kind is None:
                if ent[2] is not None:
                    res.add(_gen_finding(prop, "TV.sieve", prog, ent[3], "conditional without sieve",
                                         f"key {path[-1]!r} has no sieve but is written only when `{ent[2]}`"))
            else:
                disagreements += 1
                if kind != "custom" and ent[2] is not None and src is not None and src[3] and prop == "C03":
                    # the documented rule: "values that are equal to default will be stripped" -- the VALUE of the field
                    res.add(_gen_finding(prop, "TV.sieve-compares-dumped-value", prog, ent[3],
                                         "default compared with the output of the field dumper",
                                         f"key {path[-1]!r}: the omit_default condition `{ent[2]}` tests the value AFTER the field's "
                                         f"dumper was applied against the field's default: a field whose dumper is not the identity "
                                         f"(Decimal -> str, date -> str, nested model -> dict, Enum -> value) is never omitted although "
                                         f"it equals its default"))
                if ent[2] is None:
                    res.add(_gen_finding(prop, "TV.sieve", prog, ent[3], "unconditional sieved key",
                                         f"key {path[-1]!r} is sieved ({kind}) but written unconditionally"))
                elif kind in SIEVE_EXPECT:
                    if ent[2] != SIEVE_EXPECT[kind].format(x=x):
                        res.add(_gen_finding(prop, "TV.sieve", prog, ent[3], f"sieve condition {abstract_construct(ent[2])}",
                                             f"key {path[-1]!r} (sieve default kind {kind}) is written when `{ent[2]}`, expected "
                                             f"`{SIEVE_EXPECT[kind].format(x=x)}` (omit exactly the values equal to the default)"))
                elif kind == "dvo":
                    mt = re.fullmatch(rf"{re.escape(x)} != (dfl_\w+)", ent[2])
                    if not mt or ns.get(mt.group(1), {}).get("tag") != f"sievedefault:{path[-1]}":
                        res.add(_gen_finding(prop, "TV.sieve", prog, ent[3], "sieve default constant",
                                             f"key {path[-1]!r}: condition `{ent[2]}` does not compare with the captured default "
                                             f"object of this key"))
                elif kind == "custom":
                    mt = re.fullmatch(rf"(sieve_\w+)\({re.escape(x)}\)", ent[2])
                    if not mt or ns.get(mt.group(1), {}).get("tag") != f"sieve:{path[-1]}":
                        res.add(_gen_finding(prop, "TV.sieve", prog, ent[3], "custom sieve call",
                                             f"key {path[-1]!r}: condition `{ent[2]}` does not call the sieve of this key"))
        # placeholders
        for path, none in nones.items():
            disagreements += 1
            ent = S.tree.get(path)
            want = "[]" if none.get("ph") == "factory" else "None"
            if ent is None or ent[0] != "placeholder" or ent[1] != want:
                res.add(_gen_finding(prop, "TV.placeholder", prog, ent[3] if ent else 0, "placeholder",
                                     f"gap at {list(path)} must be filled with the placeholder `{want}`, found {ent[:2] if ent else None}"))
        # nothing else is written
        for path, ent in S.tree.items():
            if path not in oracle.values() and path not in nones:
                res.add(_gen_finding(prop, "TV.unexpected-key", prog, ent[3], "unexpected key",
                                     f"the program writes {ent[:2]} at {list(path)} which is not in the crown"))
        # return / extras
        disagreements += 1
        move = rec.get("extra_move")
        if move is None:
            if S.return_expr != "result":
                res.add(_gen_finding(prop, "TV.dumper-return", prog, 0, f"return {S.return_expr}",
                                     f"without extra_move the dumper must return the root node, returns `{S.return_expr}`"))
        else:
            if S.return_expr != "{**result, **extra}":
                res.add(_gen_finding(prop, "TV.dumper-return", prog, 0, f"return {S.return_expr}",
                                     f"with extra_move the dumper must merge the extracted extras over the root node, returns "
                                     f"`{S.return_expr}`"))
            form = move
            if move in ("targets2", "targets2o"):
                # the generator merges by display when every field of the shape is required, else through a stack
                form = "targets2o" if any(f["kind"] in ("O", "OI") for f in rec["fields"]) else "targets2"
            want_src = {"extract": "extractor(data)", "targets": "field:e:attr:e", "targets2": "{**f_e, **f_e2}",
                        "targets2o": "{key: value for extra_element in extra_stack for (key, value) in extra_element.items()}"}[form]
            if form == "targets2o" and _is_stack_merge(S.extra_source):
                pass
            elif S.extra_source != want_src:
                res.add(_gen_finding(prop, "TV.extra-source", prog, 0, f"extra = {S.extra_source}",
                                     f"extras must come from `{want_src}`, found `{S.extra_source}`"))
            if form == "targets2":
                for t in ("e", "e2"):
                    src = S.field_sources.get("f_" + t)
                    if src is None or src[0] != t or src[1] != "attr:" + t or not src[3]:
                        res.add(_gen_finding(prop, "TV.extra-source", prog, src[2] if src else 0, "extra target extraction",
                                             f"extra target `{t}` must be read from `data.{t}` and dumped, found {src}"))
            if form == "targets2o":
                got = []
                for fid, acc, dumped, line in S.extra_stack_sources:
                    if acc.startswith("raw:"):
                        raw = S.field_sources.get("r_" + acc[4:])
                        acc = raw[1] if raw else acc
                    got.append((fid, acc, dumped))
                if got != [("e", "attr:e", True), ("e2", "attr:e2", True)]:
                    res.add(_gen_finding(prop, "TV.extra-source", prog, 0, "extra target stack",
                                         f"extra targets must be extracted, dumped and stacked in declaration order, found {got}"))
                if S.containers_created.get("extra_stack") != "[]":
                    res.add(_gen_finding(prop, "TV.extra-source", prog, 0, "extra_stack init",
                                         f"extra_stack must start as a fresh empty list, found {S.containers_created.get('extra_stack')}"))
            nested = [p for p, nd in nodes.items() if p and nd["t"] == "dict" and all(isinstance(k, str) for k in p)]
            if nested and crown["t"] == "dict" and S.return_expr == "{**result, **extra}":
                res.add(Finding(prop, "TV.extra-shallow-merge", "adaptix/_internal/morphing/model/dumper_gen.py",
                                "BuiltinModelDumperGen.produce_code", "return {**result, **extra} with nested dict nodes",
                                f"generated model dumper ({prog.ident}): extras are merged with a shallow `{{**result, **extra}}` "
                                f"although the crown has nested dict nodes {nested[:2]}: the loader of the same layout collects "
                                "extras of a nested node under that node's key, so dumping them back replaces the whole nested "
                                "node and the fields mapped into it are lost", 0, extra={"program": prog.ident}))
        if sampled_ok(res) or (n % 97 == 0 and len(res.samples) < 8):
            res.sample({"program": prog.ident, "written": {str(list(p)): e[:3] for p, e in S.tree.items()},
                        "return": S.return_expr, "verdict": "audited"}, limit=20)
    res.coverage["programs"] = res.coverage.get("programs", 0) + n
    res.coverage["disagreements_checked"] = res.coverage.get("disagreements_checked", 0) + disagreements
    return n


# ================================================================================================ C08 on tier G
def expected_ctor_plan(rec: dict) -> Tuple[List[str], Dict[str, str], bool]:
    """(positional value names, {keyword: value name}, packed?) the documented assembly prescribes"""
    fields = {f["id"]: f for f in rec["fields"]}
    skipped = set(rec.get("skipped", []))
    move = rec.get("extra_move") or ""
    targets = move.split(":")[1].split(",") if move.startswith("targets:") else []
    pos: List[str] = []
    kw: Dict[str, str] = {}
    has_skipped = False
    packed = False
    for f in rec["fields"]:
        fid = f["id"]
        if f["kind"] == "O" and fid not in targets:
            packed = True   # `**packed_fields` is emitted as soon as the shape has such a field (empty when skipped)
        if fid in skipped:
            has_skipped = True
            continue
        if f["kind"] == "O" and fid not in targets:
            # passed through **packed_fields: its positional slot stays empty, later parameters go by keyword
            has_skipped = True
            continue
        if f["param_kind"] == "W" or has_skipped:
            kw[f["param"]] = f"f_{fid}"
        else:
            pos.append(f"f_{fid}")
    return pos, kw, packed


DEFAULT_EXPECT = {"DV": "7", "DVN": "None", "DF": "[]", "DVM": "[[0, 0], {'k': []}]"}


def c08_checks(repo: Repo, tier: str, res: CheckResult, seed: int) -> int:
    n = 0
    for prog, S in audited(repo, tier, seed, "loader"):
        rec = prog.rec
        n += 1
        res.evaluated("G:ctor:" + prog.ident, True)
        ns = rec["namespace"]
        move = rec.get("extra_move")
        # exactly one constructor call, on the single success path
        if len(S.ctor_calls) != 1:
            res.add(_gen_finding("C08", "CTOR.exactly-once", prog, S.ctor_calls[0].lineno if S.ctor_calls else 0,
                                 f"{len(S.ctor_calls)} constructor calls", f"the program contains {len(S.ctor_calls)} constructor "
                                 "calls: the model's constructor must run exactly once per loaded object"))
            continue
        call = S.ctor_calls[0]
        if ns.get("constructor", {}).get("tag") != "constructor":
            res.add(_gen_finding("C08", "CTOR.real-constructor", prog, call.lineno, "constructor binding",
                                 "`constructor` is not bound to the shape's constructor"))
        last = prog.fn.body[-1]
        is_last = (isinstance(last, ast.Return) and (last.value is call or (isinstance(last.value, ast.Name) and last.value.id == "result")))
        if not is_last:
            res.add(_gen_finding("C08", "CTOR.position", prog, call.lineno, "constructor not at the end",
                                 "the constructor call is not the final step of the function (it must follow the error epilogue)"))
        pos_want, kw_want, packed = expected_ctor_plan(rec)
        pos_got = [norm(a) for a in call.args]
        kw_got: Dict[str, str] = {}
        stars: List[str] = []
        for k in call.keywords:
            if k.arg is not None:
                kw_got[k.arg] = norm(k.value)
            elif isinstance(k.value, ast.Dict) and len(k.value.keys) == 1 and isinstance(k.value.keys[0], ast.Constant):
                kw_got[k.value.keys[0].value] = norm(k.value.values[0])
            else:
                stars.append(norm(k.value))
        if pos_got != pos_want:
            res.add(_gen_finding("C08", "CTOR.positional", prog, call.lineno, f"positional {len(pos_got)} expected {len(pos_want)}",
                                 f"positional arguments are {pos_got}, expected {pos_want}: a parameter is passed positionally "
                                 "after a skipped one, out of order, or a keyword-only parameter positionally"))
        if kw_got != kw_want:
            res.add(_gen_finding("C08", "CTOR.keyword", prog, call.lineno, "keyword arguments differ",
                                 f"keyword arguments are {kw_got}, expected {kw_want} (parameter names, not field ids)"))
        stars_want = (["packed_fields"] if packed else []) + (["extra"] if move == "kwargs" else [])
        if stars != stars_want:
            res.add(_gen_finding("C08", "CTOR.unpacking", prog, call.lineno, f"** {stars} expected {stars_want}",
                                 f"`**` unpackings are {stars}, expected {stars_want}"))
        if move == "saturate":
            ok = len(S.saturator_calls) == 1 and [norm(a) for a in S.saturator_calls[0].args] == ["result", "extra"] \
                and ns.get("saturator", {}).get("tag") == "saturator"
            if not ok:
                res.add(_gen_finding("C08", "CTOR.saturator", prog, call.lineno, "saturator call",
                                     "the saturator must be called once with (result, extra)"))
        # a default may stand in for an ABSENT key only: a handler that decides "absent" (KeyError / IndexError ...) must not
        # see the exceptions of the field's loader, or a present field whose loader raises that class silently gets the default
        from .genaudit import access_try_scopes as _ats
        for hs, callee, line in _ats(prog.fn, prefixes=("loader_",)):
            if any(h in hs for h in ("KeyError", "IndexError", "LookupError", "AttributeError")):
                res.add(_gen_finding("C08", "DEFAULT.present-field-defaulted", prog, line, f"{callee.replace(callee[7:], 'F')} inside a handler for {hs}",
                                     f"`{callee}(...)` runs inside a try whose handler for {hs} assigns the default (treats the key as absent): "
                                     f"when the field IS present and its loader (a user loader, a nested constructor) raises {hs.split(',')[0]}, "
                                     "the constructor receives the default instead of the value and no error is raised"))
        # defaults: absent optional field with default gets the true default
        for f in rec["fields"]:
            fid, kind = f["id"], f["kind"]
            if kind in ("R",) or fid in rec.get("skipped", []):
                continue
            ds = S.defaults.get(fid, [])
            res.evaluated(f"G:default:{prog.ident}:{fid}", True)
            if kind == "O":
                ds = ds + S.defaults.get(f"packed:{f['param']}", [])
                if ds:
                    res.add(_gen_finding("C08", "DEFAULT.packed-field-has-default", prog, 0, "default for packed field",
                                         f"field `{fid}` has no default, yet `{ds[0]}` is assigned when it is absent"))
                continue
            move_targets = (move or "").startswith("targets:") and fid in (move or "").split(":")[1].split(",")
            if move_targets:
                continue
            if len(set(ds)) != 1:
                res.add(_gen_finding("C08", "DEFAULT.missing", prog, 0, f"{len(set(ds))} default expressions",
                                     f"field `{fid}` (default kind {kind}): expected one default expression on the absent path, "
                                     f"found {sorted(set(ds))}"))
                continue
            d = ds[0]
            if kind in DEFAULT_EXPECT:
                if d != DEFAULT_EXPECT[kind]:
                    res.add(_gen_finding("C08", "DEFAULT.value", prog, 0, f"default {d}",
                                         f"field `{fid}`: default is rendered as `{d}`, expected `{DEFAULT_EXPECT[kind]}`"))
            elif kind == "DVO":
                if d != f"dfl_{fid}" or ns.get(d, {}).get("tag") != f"default:{fid}":
                    res.add(_gen_finding("C08", "DEFAULT.identity", prog, 0, f"default {d}".replace(fid, "F"),
                                         f"field `{fid}`: the absent path must use the captured default object itself "
                                         f"(`dfl_{fid}` bound to the very object), found `{d}` -> {ns.get(d, {}).get('tag')}"))
            elif kind == "DVE":
                if d != f"dfl_{fid}" or ns.get(d, {}).get("tag") != f"default:{fid}":
                    res.add(_gen_finding("C08", "DEFAULT.identity", prog, 0, f"default {d}".replace(fid, "F"),
                                         f"field `{fid}`: the absent path must use the captured default object itself, found `{d}` -> "
                                         f"{ns.get(d, {}).get('tag')}"))
            elif kind in ("DFO", "DFI"):
                want_tag = "factory:custom" if kind == "DFO" else "factory:immutable"
                if d != f"dfl_{fid}()" or ns.get(f"dfl_{fid}", {}).get("tag") != want_tag:
                    res.add(_gen_finding("C08", "DEFAULT.factory-call", prog, 0, f"default {d}".replace(fid, "F"),
                                         f"field `{fid}`: a factory default must be a call `dfl_{fid}()` evaluated in the function "
                                         f"body on every load (fresh object), found `{d}` -> {ns.get('dfl_' + fid, {}).get('type')}"))
        # capture stage: every namespace constant reaches the compiled module as itself (identity) or as a type-exact literal
        for c in rec.get("capture", []):
            res.evaluated(f"G:capture:{prog.ident}:{c['name']}", True)
            BG_ = "adaptix/_internal/morphing/model/basic_gen.py"
            if c["mode"] == "global":
                if not c.get("same_object"):
                    res.add(Finding("C08", "CAPTURE.other-object", BG_, "compile_closure_with_globals_capturing",
                                    f"{abstract_construct(c['name'])} bound to another object",
                                    f"generated model loader ({prog.ident}): namespace constant `{c['name']}` ({c.get('tag') or c['probe'].get('t')}) "
                                    f"reaches the compiled module as `{c['expr']}`, which is bound to a DIFFERENT object (of type "
                                    f"{c.get('bound_type')}): equal-looking constants were merged, an omitted field receives a "
                                    "look-alike of its default"))
            elif c["mode"] == "literal":
                try:
                    got = _encode(_eval_literal(c["expr"]))
                except Exception as ex:  # noqa: BLE001
                    got = {"error": str(ex)}
                if got != c["probe"]:
                    res.add(Finding("C08", "CAPTURE.look-alike-literal", BG_, "compile_closure_with_globals_capturing",
                                    f"{abstract_construct(c['name'])} = {c['expr'][:40]}",
                                    f"generated model loader ({prog.ident}): namespace constant `{c['name']}` is inlined as "
                                    f"`{c['expr']}`, which is not the registered value (type {c['probe'].get('t')})"))
            else:
                res.add(Finding("C08", "CAPTURE.missing", BG_, "compile_closure_with_globals_capturing", abstract_construct(c["name"]),
                                f"generated model loader ({prog.ident}): namespace constant `{c['name']}` is not bound in the "
                                "compiled module"))
    res.coverage["programs"] = res.coverage.get("programs", 0) + n
    return n


# ================================================================================================ literal renderer family
def _eval_literal(expr: str):
    """Evaluate the emitted literal text with a closed evaluator (no names except builtin constructors of the table)."""
    node = ast.parse(expr, mode="eval").body

    def ev(n):
        if isinstance(n, ast.Constant):
            return n.value
        if isinstance(n, ast.UnaryOp) and isinstance(n.op, ast.USub):
            return -ev(n.operand)
        if isinstance(n, ast.Tuple):
            return tuple(ev(x) for x in n.elts)
        if isinstance(n, ast.List):
            return [ev(x) for x in n.elts]
        if isinstance(n, ast.Set):
            return {ev(x) for x in n.elts}
        if isinstance(n, ast.Dict):
            return {ev(k): ev(v) for k, v in zip(n.keys, n.values)}
        if isinstance(n, ast.Name):
            if n.id in ("True", "False", "None"):
                return {"True": True, "False": False, "None": None}[n.id]
            if n.id in ("Ellipsis", "NotImplemented"):
                return {"Ellipsis": Ellipsis, "NotImplemented": NotImplemented}[n.id]
            import builtins
            if hasattr(builtins, n.id):
                return getattr(builtins, n.id)
            raise ValueError(f"free name {n.id}")
        if isinstance(n, ast.Call) and isinstance(n.func, ast.Name) and n.func.id in (
                "set", "frozenset", "slice", "range", "bytearray", "list", "dict", "tuple"):
            f = {"set": set, "frozenset": frozenset, "slice": slice, "range": range, "bytearray": bytearray, "list": list,
                 "dict": dict, "tuple": tuple}[n.func.id]
            return f(*[ev(a) for a in n.args])
        if isinstance(n, ast.BinOp) and isinstance(n.op, (ast.Add, ast.Sub)) and isinstance(n.right, ast.Constant) \
                and isinstance(n.right.value, complex):
            l = ev(n.left)
            return l + n.right.value if isinstance(n.op, ast.Add) else l - n.right.value
        raise ValueError(f"unsupported literal syntax {type(n).__name__}")
    return ev(node)


def _encode(v):
    t = type(v)
    name = t.__module__ + "." + t.__qualname__
    if v is None or v is Ellipsis or v is NotImplemented:
        return {"t": name, "singleton": repr(v)}
    if t in (bool, int, str):
        return {"t": name, "v": v}
    if t in (float, complex):
        return {"t": name, "v": repr(v)}
    if t in (bytes, bytearray):
        return {"t": name, "v": list(v)}
    if t in (tuple, list):
        return {"t": name, "items": [_encode(x) for x in v]}
    if t in (set, frozenset):
        return {"t": name, "set": sorted((_encode(x) for x in v), key=lambda d: json.dumps(d, sort_keys=True))}
    if t is dict:
        return {"t": name, "pairs": [[_encode(k), _encode(x)] for k, x in v.items()]}
    if t is slice or t is range:
        return {"t": name, "start": _encode(v.start), "stop": _encode(v.stop), "step": _encode(v.step)}
    if isinstance(v, type) or callable(v):
        import builtins
        n = getattr(v, "__name__", None)
        if n and getattr(builtins, n, None) is v:
            return {"t": name, "builtin": n}
    return {"t": name, "opaque": repr(v)}


FACTORY_EXPECT = {"builtins.list": [], "builtins.dict": {}, "builtins.tuple": (), "builtins.str": "", "builtins.bytes": b"",
                  "builtins.NoneType": None, "builtins.set": set(), "builtins.int": 0, "builtins.float": 0.0,
                  "builtins.bool": False, "builtins.frozenset": frozenset(), "builtins.bytearray": bytearray()}


def literal_checks(repo: Repo, tier: str, res: CheckResult, seed: int, prop: str) -> int:
    recs = run_child(repo, tier, seed, "literal")
    n = 0
    UT = "adaptix/_internal/code_tools/utils.py"
    for r in recs:
        if r.get("kind") == "literal":
            n += 1
            res.evaluated(f"G:literal:{r['value_type']}:{r['value_repr']}", True)
            if r.get("error"):
                res.add(Finding(prop, "LITERAL.renderer-raises", UT, "get_literal_expr", f"{r['value_type']}",
                                f"get_literal_expr({r['value_repr']}) raised {r['error']}"))
                continue
            if r["expr"] is None:
                continue  # not inlined: the object itself is captured (always exact)
            try:
                got = _encode(_eval_literal(r["expr"]))
            except Exception as e:  # noqa: BLE001
                res.add(Finding(prop, "LITERAL.not-a-literal", UT, "get_literal_expr", f"{r['value_type']}",
                                f"get_literal_expr({r['value_repr']}) rendered `{r['expr']}`, which is not a closed literal "
                                f"expression ({e})"))
                continue
            if len(res.samples) < 10:
                res.sample({"value": r["value_repr"], "type": r["value_type"], "rendered": r["expr"], "verdict": "exact" if got == r["probe"] else "DIFFERENT"})
            if got != r["probe"]:
                res.add(Finding(prop, "LITERAL.look-alike", UT, "get_literal_expr",
                                f"{r['value_type']} {_shape(r['probe'])}",
                                f"get_literal_expr({r['value_repr']}) of type {r['value_type']} is rendered as `{r['expr']}`, which "
                                f"evaluates to an object of type {got.get('t')} / another value: the loaded model holds a "
                                f"look-alike of the declared default (or constant) instead of the value itself"))
        elif r.get("kind") == "singleton":
            n += 1
            res.evaluated(f"G:singleton:{r['value_repr']}", True)
            if r.get("error"):
                res.add(Finding(prop, "LITERAL.singleton-raises", UT, "is_singleton", r["value_type"],
                                f"is_singleton({r['value_repr']}) raised {r['error']}: omit_default with such a default "
                                "breaks dumper creation"))
            else:
                want = r["value_repr"] in ("None", "Ellipsis", "NotImplemented", "True", "False") or r["value_type"].endswith((".IE", ".E"))
                if bool(r["result"]) != want:
                    res.add(Finding(prop, "LITERAL.singleton-wrong", UT, "is_singleton", r["value_repr"],
                                    f"is_singleton({r['value_repr']}) = {r['result']}: identity comparison is used for a value "
                                    "that is not a singleton (or equality for one that is)"))
        elif r.get("kind") == "factory_literal":
            n += 1
            res.evaluated(f"G:factory:{r['factory']}", True)
            if r.get("error"):
                res.add(Finding(prop, "LITERAL.factory-raises", UT, "get_literal_from_factory", r["factory"],
                                f"get_literal_from_factory({r['factory']}) raised {r['error']}"))
            elif r["expr"] is not None:
                want = FACTORY_EXPECT.get(r["factory"], "<no literal>")
                try:
                    got = _eval_literal(r["expr"])
                    ok = want != "<no literal>" and type(got) is type(want) and got == want
                except Exception:  # noqa: BLE001
                    ok = False
                if not ok:
                    res.add(Finding(prop, "LITERAL.factory-look-alike", UT, "get_literal_from_factory", r["factory"],
                                    f"factory {r['factory']} is inlined as `{r['expr']}`, which is not what calling it returns"))
    return n


def _shape(p: dict) -> str:
    if "items" in p:
        return f"len {len(p['items'])}"
    if "start" in p:
        return "start/stop/step"
    return ""


# ================================================================================================ C20 / C06 / C05 on tier G
_MUT = {"append", "extend", "insert", "pop", "popitem", "remove", "clear", "update", "setdefault", "sort", "reverse", "add",
        "discard"}


def c20_checks(repo: Repo, tier: str, res: CheckResult, seed: int) -> None:
    n = 0
    for kind in ("loader", "dumper"):
        for prog, S in audited(repo, tier, seed, kind):
            n += 1
            res.evaluated(f"G:pure:{prog.ident}", True)
            for txt, line in S.stores_into_data:
                res.add(_gen_finding("C20", "PURE.generated-argument-mutation", prog, line, txt,
                                     f"`{txt}` modifies the {kind}'s argument"))
            from .props import c20 as _c20
            sub = CheckResult("C20")
            _c20.PASSTHROUGH_PREFIXES = ("dumper_", "loader_")
            try:
                _c20.mutation_findings(None, prog.fn, prog.ident, kind, sub, seeds={"data"})
            finally:
                _c20.PASSTHROUGH_PREFIXES = ()
            for f in sub.findings:
                if not any(f.line == line for _t, line in S.stores_into_data):
                    res.add(_gen_finding("C20", "PURE.generated-argument-mutation", prog, f.line, f.construct,
                                         f.message.split(":")[0]))
            ns = prog.rec["namespace"]
            # module-level helpers of the repository the program hands its values to: what do they modify in place?
            t_prog = _c20.tainted_names(prog.fn, {"data"})
            exc_names = {h.name for h in ast.walk(prog.fn) if isinstance(h, ast.ExceptHandler) and h.name}
            for c in ast.walk(prog.fn):
                if not (isinstance(c, ast.Call) and isinstance(c.func, ast.Name) and c.func.id in ns):
                    continue
                dotted = ns[c.func.id].get("callable") or ""
                if not dotted.startswith("adaptix.") or ns[c.func.id]["type"] != "builtins.function":
                    continue
                mod_name, _, fname = dotted.rpartition(".")
                hm = repo.modules.get(mod_name) or next((mm for mm in repo.modules.values()
                                                         if mm.rel == mod_name.replace(".", "/") + ".py"), None)
                hfn = next((x for x in hm.tree.body if isinstance(x, ast.FunctionDef) and x.name == fname), None) if hm else None
                if hfn is None:
                    continue    # a closure (field loader/dumper stub): not a module-level helper
                modes_ = {}
                for pname, a in zip(_c20.func_params(hfn), c.args):
                    if _c20._derives_from(a, t_prog):
                        modes_[pname] = "tainted"
                    elif isinstance(a, ast.Name) and a.id not in exc_names and a.id not in ns:
                        modes_[pname] = "holder"     # a local built by the program: its elements come from the argument
                res.evaluated(f"G:helper:{prog.ident}:{fname}", True)
                for node, what, where in _c20.helper_mutations(repo, hm, hfn, modes_):
                    res.add(Finding("C20", "PURE.helper-argument-mutation", hm.rel, where, norm(node)[:100],
                                    f"generated model {kind} ({prog.ident}) calls `{norm(c)[:60]}`; the helper performs a {what} on an "
                                    f"object taken out of its argument: values dumped/loaded as is (Any, dict[str, Any], extras) are the "
                                    f"caller's own containers, so the {kind} modifies its argument", getattr(node, "lineno", 0)))
            shared = {k for k, v in ns.items() if v["type"] in ("builtins.set", "builtins.dict", "builtins.list")}
            for c in ast.walk(prog.fn):
                if isinstance(c, ast.Call) and isinstance(c.func, ast.Attribute) and c.func.attr in _MUT \
                        and isinstance(c.func.value, ast.Name) and c.func.value.id in shared:
                    res.add(_gen_finding("C20", "FRESH.generated-shared-constant-mutated", prog, c.lineno, norm(c),
                                         f"`{norm(c)}` mutates a container that lives in the closure's namespace (created once)"))
                if isinstance(c, (ast.Assign, ast.AugAssign)):
                    tg = c.targets[0] if isinstance(c, ast.Assign) else c.target
                    if isinstance(tg, ast.Subscript) and isinstance(tg.value, ast.Name) and tg.value.id in shared:
                        res.add(_gen_finding("C20", "FRESH.generated-shared-constant-mutated", prog, c.lineno, norm(c),
                                             f"`{norm(c)}` stores into a container of the closure's namespace"))
            if kind == "loader":
                mutable = {k for k, v in ns.items() if v["type"] in ("builtins.set", "builtins.dict", "builtins.list", "builtins.bytearray")}
                for fid, ds in S.defaults.items():
                    for d in set(ds):
                        try:
                            tree = ast.parse(d, mode="eval").body
                        except SyntaxError:
                            continue
                        deep = {id(c.args[0]) for c in ast.walk(tree) if isinstance(c, ast.Call) and c.args
                                and norm(c.func).split(".")[-1] == "deepcopy"}
                        for nm in ast.walk(tree):
                            if isinstance(nm, ast.Name) and nm.id in mutable and id(nm) not in deep:
                                how = "handed out as is" if d == nm.id else f"copied one level deep by `{d}`"
                                res.add(_gen_finding("C20", "FRESH.generated-default-shared", prog, 0,
                                                     f"default {d}".replace(fid, "F"),
                                                     f"field `{fid}`: the default on the absent path is the namespace container "
                                                     f"`{nm.id}` ({ns[nm.id]['repr'][:40]}), created once, {how}: the (nested) containers "
                                                     "of one loaded object are the containers of the next"))
                for var, init in S.extra_inits.items():
                    ok = init == "{}" or (init.startswith("[") and set(init) <= set("[]{}, None"))
                    if not ok:
                        res.add(_gen_finding("C20", "FRESH.generated-extra-not-fresh", prog, 0, f"{var} = {init}",
                                             f"`{var} = {init}`: collected extras must be a container created in the body "
                                             "(never the input mapping or a shared object)"))
                for var in ("packed_fields", "errors"):
                    if var in S.containers_created and S.containers_created[var] not in ("{}", "[]"):
                        res.add(_gen_finding("C20", "FRESH.generated-container", prog, 0, f"{var} = {S.containers_created[var]}",
                                             f"`{var}` is not created by a display in the function body"))
            else:
                for var, init in S.containers_created.items():
                    if var in ("opt_fields", "errors", "extra_stack") and init not in ("{}", "[]"):
                        res.add(_gen_finding("C20", "FRESH.generated-container", prog, 0, f"{var} = {init}",
                                             f"`{var}` is not created by a display in the function body"))
                    if var.startswith("result") and init not in ("Dict", "List"):
                        res.add(_gen_finding("C20", "FRESH.generated-container", prog, 0, f"{var} built by {init}",
                                             f"node `{var}` is not built by a display evaluated on each call"))
    res.count("PURE.generated-programs", n, 500)
    # mutable defaults / constants: a builtin mutable container must be rendered as a display evaluated per call, otherwise
    # the one object of the class definition is handed to every result (loader defaults, link_constant values)
    UT = "adaptix/_internal/code_tools/utils.py"
    m = 0
    for r in run_child(repo, tier, seed, "literal"):
        if r.get("kind") != "literal" or not r.get("mutable_builtin"):
            continue
        m += 1
        res.evaluated(f"G:mutable-default:{r['value_repr'][:60]}", True)
        if r.get("expr") is not None or r.get("error"):
            continue
        if r.get("literal_leaves_only"):
            res.add(Finding("C20", "FRESH.mutable-default-captured", UT, "get_literal_expr", f"{_shape(r['probe'])}"[:120],
                            f"the mutable default `{r['value_repr'][:80]}` consists of literals only but get_literal_expr gives no "
                            "expression for it: the generated loader captures the object of the class definition and hands the "
                            "same container to every loaded result (results share it with each other and with the class)"))
        else:
            res.add(Finding("C20", "FRESH.mutable-default-captured", UT, "get_literal_expr",
                            "mutable container with a leaf that has no literal form",
                            f"the mutable default `{r['value_repr'][:80]}` has a leaf without literal form, so the object of the class "
                            "definition is captured and shared by all loaded results"))
    res.count("FRESH.mutable-default-values", m, 15)
    # converters: a mutable constant (link_constant(value=[...])) reaches the destination as a display evaluated in the BODY of the
    # converter; a name bound outside the body (the namespace, or a literal rendered once in the closure maker) is one object for
    # all results
    k = 0
    for r in run_child(repo, tier, seed, "convpipe"):
        if r.get("kind") != "convpipe" or r.get("harness_error") or r.get("error"):
            continue
        consts = [it for it in r["cfg"]["recipe"] if it["k"] == "const" and isinstance(it["value"], (list, dict))]
        if not consts:
            continue
        for cl in r["closures"]:
            body = "\n".join(l for l in cl["source"].split("\n") if not l.startswith("return "))
            try:
                tree = ast.parse(body)
            except SyntaxError:
                continue
            fn = next((x for x in tree.body if isinstance(x, ast.FunctionDef)), None)
            if fn is None or not (fn.body and isinstance(fn.body[-1], ast.Return) and isinstance(fn.body[-1].value, ast.Call)):
                continue
            k += 1
            res.evaluated(f"G:converter-mutable-constant:{r['idx']}:{fn.name}", True)
            call = fn.body[-1].value
            bound_in_body = {t.id for a in ast.walk(fn) if isinstance(a, ast.Assign) for t in a.targets if isinstance(t, ast.Name)}
            # module-level statements of the emitted text before the def: `constant_0 = [1, 2]` (rendered once) or `= g_constant_0`
            outer = {t.id: a.value for a in tree.body if isinstance(a, ast.Assign) for t in a.targets if isinstance(t, ast.Name)}
            for a in list(call.args) + [kw.value for kw in call.keywords]:
                if isinstance(a, ast.Name) and a.id in outer and a.id not in bound_in_body:
                    v = outer[a.id]
                    ns_t = cl["namespace"].get(v.id, {}).get("type", "") if isinstance(v, ast.Name) else ""
                    if isinstance(v, (ast.List, ast.Dict, ast.Set)) or ns_t in ("builtins.list", "builtins.dict", "builtins.set", "builtins.bytearray"):
                        res.add(Finding("C20", "FRESH.generated-constant-shared", "adaptix/_internal/conversion/broaching/code_generator.py",
                                        "_gen_constant_element", f"`{a.id}` = {norm(v)[:40]} outside the body of {fn.name}"[:120],
                                        f"converter configuration #{r['idx']}: the mutable constant reaches the constructor as `{a.id}`, bound "
                                        f"ONCE outside the converter's body (`{a.id} = {norm(v)[:40]}`): every converted object holds the same "
                                        "list / dict, a change of one result changes all later results", 0))
    res.count("FRESH.converters-with-mutable-constants", k, 2)


def _loader_fingerprint(S: LoaderSummary) -> Dict[str, Any]:
    groups = {"AggregateLoadError", "CompatExceptionGroup", "UnionLoadError"}
    call = S.ctor_calls[0] if S.ctor_calls else None
    return {
        "reads": sorted((r.field_id, repr(r.path), r.via, r.target) for r in S.reads),
        "rejects": sorted({(c, repr(p)) for c, p, _t, _l, _x in S.rejects if c not in groups}),
        "forbid": sorted((a, b) for a, b, _ in S.forbid_checks),
        "collect": sorted((a, b, c) for a, b, c, _ in S.extra_copies),
        "links": sorted((a, repr(k), c, cond) for a, k, c, cond, _ in S.extra_links),
        "len": sorted((a, b, c) for a, b, c, _ in S.len_checks),
        "type_checks": sorted(set((a, b) for a, b, _ in S.type_checks)),
        "absence": sorted({(repr(p), d) for p, d, _ in S.absence}),
        "probes": sorted({(repr(p), k) for p, k, _ in S.probes}),
        "forbid_guards": sorted((a, tuple(b), c) for a, b, c, _ in S.forbid_guards),
        "ctor": norm(call) if call is not None else None,
        "defaults": {k: sorted(set(v)) for k, v in sorted(S.defaults.items())},
    }


def c06_checks(repo: Repo, tier: str, res: CheckResult, seed: int) -> None:
    groups: Dict[Tuple, Dict[str, Tuple[GenProg, Any]]] = {}
    for prog, S in audited(repo, tier, seed, "loader"):
        r = prog.rec
        key = ("loader", r["shape_name"], r["crown_name"], _policy(r["crown"]), json.dumps(r["crown"], sort_keys=True),
               str(r.get("extra_move")), r["strict"])
        groups.setdefault(key, {})[r["debug_trail"]] = (prog, _loader_fingerprint(S))
    for prog, S in audited(repo, tier, seed, "dumper"):
        r = prog.rec
        key = ("dumper", r["shape_name"], r["crown_name"], json.dumps(r["crown"], sort_keys=True), str(r.get("extra_move")))
        fp = {"tree": sorted((repr(p), e[0], repr(e[1]), e[2]) for p, e in S.tree.items()), "return": S.return_expr,
              "extra": S.extra_source, "sources": sorted((k, v[0], v[1], v[3]) for k, v in S.field_sources.items())}
        groups.setdefault(key, {})[r["debug_trail"]] = (prog, fp)
    from . import swallow as _sw
    from .genaudit import access_try_scopes
    n_sw = 0
    for kind in ("loader", "dumper"):
        for prog, S in audited(repo, tier, seed, kind):
            sw = _sw.analyse(prog.fn)
            if sw.handlers_seen:
                n_sw += 1
            for node, hline, k in sw.findings:
                res.add(_gen_finding("C06", "SWALLOW.generated-unexpected-error-then-success", prog, hline,
                                     "except Exception then normal completion",
                                     f"after the handler at emitted line {hline} caught an unexpected exception the program can "
                                     f"still {'return' if k == 'return' else 'end'} normally (line {getattr(node, 'lineno', 0)})"))
            for hs, callee, line in access_try_scopes(prog.fn):
                res.add(_gen_finding("C06", "SIB.generated-access-try-scope", prog, line, f"{callee.split('_')[0]} call under except {hs}",
                                     f"`{callee}(...)` runs inside the try whose `except {hs}` means 'field is absent': an "
                                     f"{hs} raised by the field {kind} itself is taken for absence in this mode (field silently "
                                     "skipped or defaulted) while the other modes propagate it"))
            if kind == "loader":
                for pth, dec, line in S.absence:
                    if dec != "key-missing":
                        res.add(_gen_finding("C06", "SIB.generated-absence-decision", prog, line, "absence decided by " + dec.split(":")[0],
                                             f"whether the key at {list(pth) if pth else pth} is absent is decided by `{dec}` "
                                             "instead of a missing-key test (sentinel identity / KeyError): a present value equal "
                                             "to the fallback is treated as absent in this mode only"))
    res.count("SWALLOW.generated-programs-with-broad-handler", n_sw, 100)
    n = 0
    for key, modes in groups.items():
        if len(modes) < 2:
            continue
        n += 1
        res.evaluated("G:modes:" + "/".join(map(str, key[:3])) + ":" + str(key[-1]), True)
        base_mode = "FIRST" if "FIRST" in modes else sorted(modes)[0]
        bprog, bfp = modes[base_mode]
        for mode, (prog, fp) in modes.items():
            if mode == base_mode:
                continue
            diffs = [k for k in fp if fp[k] != bfp.get(k)]
            # the type check of the root node may be expressed through the first access (handlers) in one mode and an
            # isinstance in another: compare only the set of checked nodes
            if "type_checks" in diffs:
                diffs.remove("type_checks")
            if diffs:
                k0 = diffs[0]
                res.add(_gen_finding("C06", "SIB.generated-mode-disagreement", prog, 0, f"{key[0]} {k0} differs between modes",
                                     f"programs emitted for debug_trail={mode} and {base_mode} ({'/'.join(map(str, key[:3]))}) "
                                     f"disagree on {diffs}: {fp[k0]} vs {bfp.get(k0)}"))
    res.count("SIB.generated-mode-groups", n, 100)


def _expected_trail(path) -> Optional[Tuple[str, Any]]:
    if not path:
        return None
    if len(path) == 1:
        return ("append", path[0])
    return ("extend", tuple(path))


def c05_checks(repo: Repo, tier: str, res: CheckResult, seed: int) -> None:
    n = 0
    for prog, S in audited(repo, tier, seed, "loader"):
        mode = prog.rec["debug_trail"]
        n += 1
        res.evaluated("G:trail:" + prog.ident, True)
        oracle = crown_fields(prog.rec["crown"])
        if mode == "ALL":
            # every field loader runs whatever happened before it: a leaf whose loading is skipped once an error has been
            # collected is an independently invalid leaf that is never reported (extra targets included)
            parents = {id(c): p for p in ast.walk(prog.fn) for c in ast.iter_child_nodes(p)}
            for call in ast.walk(prog.fn):
                if not (isinstance(call, ast.Call) and isinstance(call.func, ast.Name) and call.func.id.startswith("loader_")):
                    continue
                node: ast.AST = call
                while id(node) in parents:
                    par = parents[id(node)]
                    if isinstance(par, ast.If) and node in par.body and any(
                            isinstance(x, ast.Name) and (x.id == "errors" or x.id.startswith("has_") and x.id.endswith("error") or "_error" in x.id and x.id.startswith("has_"))
                            for x in ast.walk(par.test)):
                        res.add(_gen_finding("C05", "ALL.generated-leaf-skipped-after-error", prog, call.lineno,
                                             f"if {norm(par.test)}: ... {call.func.id}(...)",
                                             f"`{call.func.id}` is applied only when `{norm(par.test)}` holds: once another leaf has failed this leaf is not "
                                             "loaded at all, an invalid value in it is missing from the errors DebugTrail.ALL reports"))
                        break
                    node = par
        for r in S.reads:
            if r.via not in ("loader",):
                continue
            if mode == "DISABLE":
                if r.trail is not None or r.in_try:
                    res.add(_gen_finding("C05", "TRAIL.generated-trail-in-disable", prog, r.lineno, "trail in DISABLE",
                                         f"field `{r.field_id}` is loaded inside a trail-annotating try in DISABLE mode"))
                continue
            want = _expected_trail(oracle.get(r.field_id))
            if not r.in_try or r.trail is None or r.trail == ("none", None):
                res.add(_gen_finding("C05", "TRAIL.generated-no-trail", prog, r.lineno, "field loader without trail",
                                     f"errors of the loader of field `{r.field_id}` are not annotated with its path "
                                     f"{list(oracle.get(r.field_id, ()))}"))
            elif r.trail != want:
                res.add(_gen_finding("C05", "TRAIL.generated-wrong-trail", prog, r.lineno,
                                     f"trail {r.trail[0]} vs {want[0] if want else None}",
                                     f"errors of field `{r.field_id}` are annotated with {r.trail} but its crown path is "
                                     f"{list(oracle.get(r.field_id, ()))} (expected {want})"))
        for cls, path, trail, line, txt in S.rejects:
            if path is None:
                continue
            want = None if mode == "DISABLE" else _expected_trail(path)
            if trail != want:
                res.add(_gen_finding("C05", "TRAIL.generated-wrong-trail", prog, line, f"{cls} trail",
                                     f"{cls} about the node at {list(path)} carries trail {trail}, expected {want}"))
        if mode == "ALL":
            # once-per-node flags: a flag that suppresses repeated NoRequiredFields reports may guard one node only
            guards: Dict[str, Set[str]] = {}
            lines: Dict[str, int] = {}
            for iff in [x for x in ast.walk(prog.fn) if isinstance(x, ast.If)]:
                t = iff.test
                if not (isinstance(t, ast.UnaryOp) and isinstance(t.op, ast.Not) and isinstance(t.operand, ast.Name)):
                    continue
                for c in ast.walk(iff):
                    if isinstance(c, ast.Call) and isinstance(c.func, ast.Name) and c.func.id.endswith("LoadError") and c.args \
                            and isinstance(c.args[-1], ast.Name) and c.args[-1].id in S.node_vars | {"data": ()}:
                        guards.setdefault(t.operand.id, set()).add(c.args[-1].id)
                        lines.setdefault(t.operand.id, iff.lineno)
            for flag, nodes_ in guards.items():
                if len(nodes_) > 1:
                    res.add(_gen_finding("C05", "ALL.generated-shared-once-flag", prog, lines[flag], "shared once-flag",
                                         f"the flag `{flag}` suppresses repeated missing-key reports for the nodes {sorted(nodes_)}: "
                                         "after one mapping reported its missing keys, missing keys of the other mappings are dropped"))
            # every rejection in ALL mode is collected or raised, never conditional on a flag of another node: checked above
            # a TypeLoadError about the nested node at path p unwinds to the nearest `except TypeLoadError`: that try may only
            # cover code of the subtree of p, otherwise the later siblings of p are skipped and their errors are lost
            parents_ = {}
            for pn in ast.walk(prog.fn):
                for ch in ast.iter_child_nodes(pn):
                    parents_[id(ch)] = pn
            tries = [t for t in ast.walk(prog.fn) if isinstance(t, ast.Try)
                     and any(h.type is not None and norm(h.type) == "TypeLoadError" for h in t.handlers)]
            for cls, path, _trail, line, _txt in S.rejects:
                if cls != "TypeLoadError" or not path:
                    continue
                # nearest enclosing try (by body) of the raising statement
                stmt = next((x for x in ast.walk(prog.fn) if isinstance(x, ast.stmt) and getattr(x, "lineno", -1) == line), None)
                encl = None
                cur = stmt
                while cur is not None and encl is None:
                    par = parents_.get(id(cur))
                    if isinstance(par, ast.Try) and par in tries and any(cur is b for b in par.body):
                        encl = par
                    cur = par
                if encl is None:
                    continue
                lo, hi = encl.body[0].lineno, max(getattr(x, "end_lineno", 0) or 0 for b in encl.body for x in ast.walk(b))
                outside = sorted({r.field_id for r in S.reads if r.path is not None and lo <= r.lineno <= hi
                                  and tuple(r.path)[:len(path)] != tuple(path)})
                if outside:
                    res.add(_gen_finding("C05", "ALL.generated-type-error-unwinds-siblings", prog, line,
                                         f"TypeLoadError of a depth-{len(path)} node caught {len(path) - len(_common_prefix(path, outside, S))} level(s) up",
                                         f"the TypeLoadError about the node at {list(path)} is caught by a try that also covers the fields "
                                         f"{outside} outside that node: when the node has the wrong type the code of those fields is skipped "
                                         "and their errors are missing from the collected group"))
    res.count("TRAIL.generated-programs", n, 300)


def _common_prefix(path, outside_fields, S) -> tuple:
    """longest prefix of `path` under which every field of outside_fields lies (for the message only)"""
    best = tuple(path)
    for r in S.reads:
        if r.field_id in outside_fields and r.path is not None:
            p = tuple(r.path)
            k = 0
            while k < len(best) and k < len(p) and best[k] == p[k]:
                k += 1
            best = best[:k]
    return best


def c19_checks(repo: Repo, tier: str, res: CheckResult, seed: int) -> None:
    """hostile identifiers / keys: the emitted programs must still parse and pass the translation validation"""
    from .genaudit import audit_dumper as _ad, audit_loader as _al
    recs = run_child(repo, tier, seed, "hostile")
    n = 0
    saved = dict(_AUDIT_CACHE)
    for kind in ("loader", "dumper"):
        progs = []
        for i, r in enumerate(recs):
            if r.get("kind") != kind:
                continue
            n += 1
            res.evaluated(f"G:hostile:{kind}:{r.get('shape_name')}:{r.get('crown_name')}:{r.get('debug_trail')}", True)
            if r.get("error"):
                res.add(Finding("C19", "HOSTILE.generation-fails", f"generated:{kind}", r.get("shape_name", "?"),
                                f"{r.get('crown_name')}", f"generating a {kind} for hostile names/keys ({r.get('shape_name')}/"
                                f"{r.get('crown_name')}) failed: {r['error']}"))
                continue
            try:
                tree = ast.parse(r["source"])
            except SyntaxError as e:
                res.add(Finding("C19", "HOSTILE.does-not-parse", f"generated:{kind}", r.get("shape_name", "?"),
                                f"{r.get('crown_name')}", f"the {kind} emitted for hostile names/keys does not compile: {e}"))
                continue
            progs.append(GenProg(r, tree, tree.body[0], i))
        key = (str(repo.root), tier, seed, kind)
        _AUDIT_CACHE[key] = [(p, _al(p.fn) if kind == "loader" else _ad(p.fn)) for p in progs]
    try:
        sub = CheckResult("C19")
        c03_loader_checks(repo, tier, sub, seed, prop="C19")
        c03_dumper_checks(repo, tier, sub, seed, prop="C19")
        for f in sub.findings:
            if f.rule in ("TV.extra-structural-key", "TV.extra-shallow-merge"):
                continue
            f.rule = "HOSTILE." + f.rule
            res.add(f)
    finally:
        _AUDIT_CACHE.clear()
        _AUDIT_CACHE.update(saved)
    res.count("HOSTILE.programs", n, 60)


# ================================================================================================ C13: converters (tier G)
BG = "adaptix/_internal/conversion/broaching/code_generator.py"
CPV = "adaptix/_internal/conversion/converter_provider.py"


def _plan_text(p: dict, depth: int = 0) -> str:
    if p["k"] == "param":
        return p["name"]
    if p["k"] == "const":
        return f"const({p['tag'] or json.dumps(p['value'])[:40]})"
    if p["k"] == "acc":
        return f"{_plan_text(p['target'])}.<{p.get('name', p.get('key', p.get('tag')))}>"
    return f"{p['tag']}(" + ", ".join((a["key"] + "=" if a["key"] else "") + _plan_text(a["el"]) for a in p["args"]) + ")"


def _match_plan(p: dict, e: ast.expr, ns: Dict[str, dict], bind: Dict[str, str]) -> Optional[str]:
    """None when expression `e` is the image of plan `p`; otherwise the first disagreement.  `bind`: namespace name ->
    tag, filled while matching; one namespace name must stand for exactly one object."""
    k = p["k"]
    if k == "param":
        if isinstance(e, ast.Name) and e.id == p["name"]:
            if e.id in ns:
                return f"parameter `{e.id}` is shadowed by a namespace constant"
            return None
        return f"parameter {p['name']} rendered as `{norm(e)}`"
    if k == "const":
        if isinstance(e, ast.Name) and e.id in ns:
            want = p["tag"]
            got = ns[e.id].get("tag")
            if want is not None:
                return None if got == want else f"constant {want} rendered as `{e.id}` bound to {got or ns[e.id].get('repr')}"
            # untagged value passed through the namespace: compare type and repr
            enc = p["value"]
            if ns[e.id].get("type") == enc["t"]:
                return None
            return f"constant of type {enc['t']} rendered as `{e.id}` of type {ns[e.id].get('type')}"
        try:
            v = _eval_literal(norm(e))
        except Exception as ex:  # noqa: BLE001
            return f"constant rendered as non literal `{norm(e)}` ({ex})"
        if _encode(v) != p["value"]:
            return f"constant {json.dumps(p['value'])[:60]} rendered as `{norm(e)}` (a different value or type)"
        return None
    if k == "acc":
        acc = p["acc"]
        if acc == "attr":
            if p["name"].isidentifier():
                if isinstance(e, ast.Attribute) and e.attr == p["name"]:
                    return _match_plan(p["target"], e.value, ns, bind)
            if isinstance(e, ast.Call) and norm(e.func) == "getattr" and len(e.args) == 2 and isinstance(e.args[1], ast.Constant) \
                    and e.args[1].value == p["name"] and "getattr" not in ns:
                return _match_plan(p["target"], e.args[0], ns, bind)
            return f"attribute `{p['name']}` rendered as `{norm(e)[:60]}`"
        if acc == "item":
            if isinstance(e, ast.Subscript) and isinstance(e.slice, ast.Constant) and _encode(e.slice.value) == p["key"]:
                return _match_plan(p["target"], e.value, ns, bind)
            return f"item {json.dumps(p['key'])[:40]} rendered as `{norm(e)[:60]}`"
        if acc == "getter":
            if isinstance(e, ast.Call) and isinstance(e.func, ast.Name) and len(e.args) == 1 and not e.keywords \
                    and ns.get(e.func.id, {}).get("tag") == p["tag"]:
                return _match_plan(p["target"], e.args[0], ns, bind)
            return f"custom accessor rendered as `{norm(e)[:60]}`"
    if k == "func":
        tag = p["tag"]
        args = p["args"]
        # documented elision of as-is coercers
        if tag == "as_is_stub" and len(args) == 1 and args[0]["kind"] == "PositionalArg" \
                or tag == "as_is_stub_with_ctx" and len(args) == 2 and all(a["kind"] == "PositionalArg" for a in args):
            if not (isinstance(e, ast.Call) and isinstance(e.func, ast.Name) and ns.get(e.func.id, {}).get("tag") == tag):
                return _match_plan(args[0]["el"], e, ns, bind)
        if not args and isinstance(e, (ast.List, ast.Dict, ast.Tuple, ast.Set, ast.Constant)) or (
                not args and isinstance(e, ast.Call) and isinstance(e.func, ast.Name) and e.func.id in ("set", "frozenset", "bytearray")
                and e.func.id not in ns and not e.args):
            # literal of a builtin factory: must be an EMPTY display of that type, evaluated per call
            want = {"builtins.list": "[]", "builtins.dict": "{}", "builtins.tuple": "()", "builtins.set": "set()",
                    "builtins.frozenset": "frozenset()", "builtins.bytearray": "bytearray()", "builtins.str": "''",
                    "builtins.bytes": "b''", "builtins.int": "0", "builtins.float": "0.0", "builtins.bool": "False"}
            # the factory is identified by the tag of the function (None for builtins): accept only when untagged
            if tag is None and norm(e) in want.values():
                return None
            return f"factory {tag} rendered as literal `{norm(e)}`"
        if not (isinstance(e, ast.Call) and isinstance(e.func, ast.Name)):
            return f"call of {tag} rendered as `{norm(e)[:60]}`"
        fname = e.func.id
        got = ns.get(fname, {}).get("tag")
        if fname not in ns:
            return f"function {tag} called through the free name `{fname}`"
        if got != tag and not (tag is None and ns[fname].get("callable", "").startswith("builtins.")):
            return f"call of {tag} goes to `{fname}` which is bound to {got or ns[fname].get('repr')}"
        if bind.setdefault(fname, str(tag)) != str(tag):
            return f"name `{fname}` stands for two different functions"
        pos = [a for a in args if a["kind"] in ("PositionalArg", "UnpackIterable")]
        kws = [a for a in args if a["kind"] in ("KeywordArg", "UnpackMapping")]
        if len(e.args) != len(pos):
            return f"{len(pos)} positional arguments rendered as {len(e.args)}"
        for a, x in zip(pos, e.args):
            if a["kind"] == "UnpackIterable":
                if not isinstance(x, ast.Starred):
                    return "iterable unpacking lost"
                x = x.value
            elif isinstance(x, ast.Starred):
                return "positional argument rendered with *"
            r = _match_plan(a["el"], x, ns, bind)
            if r:
                return r
        if len(e.keywords) != len(kws):
            return f"{len(kws)} keyword arguments rendered as {len(e.keywords)}"

        def _kwname(kw: ast.keyword) -> Optional[str]:
            if kw.arg is not None:
                return kw.arg
            d = kw.value
            if isinstance(d, ast.Dict) and len(d.keys) == 1 and isinstance(d.keys[0], ast.Constant):
                return d.keys[0].value
            return None
        # named keywords may be emitted in any order (the callee binds them by name); unpackings keep their relative order
        named = {_kwname(kw): kw for kw in e.keywords if _kwname(kw) is not None}
        unnamed = [kw for kw in e.keywords if _kwname(kw) is None]
        ordered = []
        for a in kws:
            if a["kind"] == "UnpackMapping":
                if not unnamed:
                    return "mapping unpacking lost"
                ordered.append(unnamed.pop(0))
            else:
                if a["key"] not in named:
                    return f"keyword `{a['key']}` is missing from the call"
                ordered.append(named[a["key"]])
        for a, kw in zip(kws, ordered):
            if a["kind"] == "UnpackMapping":
                if kw.arg is not None:
                    return "mapping unpacking lost"
                r = _match_plan(a["el"], kw.value, ns, bind)
            elif kw.arg is not None:
                if kw.arg != a["key"]:
                    return f"keyword `{a['key']}` rendered as `{kw.arg}`"
                r = _match_plan(a["el"], kw.value, ns, bind)
            else:
                # **{'class': value}
                d = kw.value
                if not (isinstance(d, ast.Dict) and len(d.keys) == 1 and isinstance(d.keys[0], ast.Constant) and d.keys[0].value == a["key"]):
                    return f"keyword `{a['key']}` rendered as `{norm(kw.value)[:60]}`"
                r = _match_plan(a["el"], d.values[0], ns, bind)
            if r:
                return r
        return None
    return f"unknown plan element {k}"


def c13_checks(repo: Repo, tier: str, res: CheckResult, seed: int) -> None:
    recs = run_child(repo, tier, seed, "broach,converter")
    n = 0
    for r in recs:
        if r.get("kind") != "broach":
            continue
        n += 1
        ident = f"G:broach:{r['idx']}:{_plan_text(r['plan'])[:80]}"
        res.evaluated(ident, True)
        if r.get("error"):
            res.add(Finding("C13", "PLAN.generation-fails", BG, "BuiltinBroachingCodeGenerator.produce_code",
                            _plan_text(r["plan"])[:120], f"code generation failed for a valid plan: {r['error']}", 0))
            continue
        if r.get("user_functions_run"):
            res.add(Finding("C13", "PLAN.user-function-run-while-generating", BG, "BuiltinBroachingCodeGenerator.produce_code",
                            "linked user function called by the code generator",
                            f"generating the code of plan `{_plan_text(r['plan'])[:80]}` CALLED the linked user function(s) "
                            f"{sorted(set(r['user_functions_run']))}: a factory given to link_constant / a zero-argument "
                            "link_function has to run once per conversion, not once when the converter is built", 0))
        try:
            tree = ast.parse(r["source"])
        except SyntaxError as ex:
            res.add(Finding("C13", "PLAN.does-not-parse", BG, "BuiltinBroachingCodeGenerator.produce_code",
                            _plan_text(r["plan"])[:120], f"emitted converter does not compile: {ex}", 0))
            continue
        fn = tree.body[0]
        ns = r["namespace"]
        ok_shape = isinstance(fn, ast.FunctionDef) and len(fn.body) == 1 and isinstance(fn.body[0], ast.Return)
        if not ok_shape:
            res.add(Finding("C13", "PLAN.body-shape", BG, "BuiltinBroachingCodeGenerator.produce_code", "body",
                            "the emitted coercer must be a single `return <expression>` (nothing is stored, nothing is "
                            "mutated)", 0))
            continue
        if [a.arg for a in fn.args.posonlyargs + fn.args.args] != ["data", "ctx"]:
            res.add(Finding("C13", "PLAN.signature", BG, "BuiltinBroachingCodeGenerator.produce_code", norm(fn.args),
                            "the coercer takes (data, ctx)", 0))
        why = _match_plan(r["plan"], fn.body[0].value, ns, {})
        if why:
            prog = GenProg(r, tree, fn, r["idx"])
            gfile, gfunc, gline = prog.origin_key(fn.body[0].lineno)
            res.add(Finding("C13", "PLAN.expression-differs", BG if gfile.startswith("generated") else gfile,
                            gfunc if gfunc != "?" else "BuiltinBroachingCodeGenerator", why[:120],
                            f"plan `{_plan_text(r['plan'])[:160]}` is rendered as `{norm(fn.body[0].value)[:160]}`: {why}. The "
                            "emitted expression must be the plan's image: one call per function element with the same "
                            "positional/keyword structure, one attribute/item per accessor, constants type-exact", gline,
                            extra={"plan": r["idx"]}))
        if len(res.samples) < 6 and n % 17 == 0:
            res.sample({"plan": _plan_text(r["plan"])[:160], "emitted": norm(fn.body[0].value)[:160], "verdict": "isomorphic"})
    res.count("PLAN.programs", n, 100)
    # converter template
    m = 0
    for r in recs:
        if r.get("kind") != "converter":
            continue
        m += 1
        ident = f"{r['sig']}/{r['function_name']}/{'stub' if r['stub'] else 'nostub'}"
        res.evaluated(f"G:converter:{ident}", True)
        qual = "BuiltinConverterProvider._produce_code"
        if r.get("error"):
            res.add(Finding("C13", "CONV.generation-fails", CPV, qual, ident, f"converter template failed: {r['error']}", 0))
            continue
        try:
            tree = ast.parse(r["source"])
        except SyntaxError as ex:
            res.add(Finding("C13", "CONV.does-not-parse", CPV, qual, ident, f"emitted converter does not compile: {ex}", 0))
            continue
        ns = r["namespace"]
        fn = tree.body[0]
        params = r["params"]
        cname = r["closure_name"]

        def bad(rule: str, construct: str, why: str) -> None:
            res.add(Finding("C13", rule, CPV, qual, construct, f"converter template ({ident}): {why}", 0))
        if not isinstance(fn, ast.FunctionDef) or fn.name != cname:
            bad("CONV.header", "def", "first statement is not the converter definition")
            continue
        # parameters: same names, kinds, order; defaults come from the namespace and are the very objects
        got = [(a.arg, "POSITIONAL_ONLY") for a in fn.args.posonlyargs] + [(a.arg, "POSITIONAL_OR_KEYWORD") for a in fn.args.args] \
            + [(a.arg, "KEYWORD_ONLY") for a in fn.args.kwonlyargs]
        if got != [(p[0], p[1]) for p in params] or fn.args.vararg or fn.args.kwarg:
            bad("CONV.signature", "parameters", f"parameters {got} differ from the requested {[(p[0], p[1]) for p in params]}")
        pos_params = fn.args.posonlyargs + fn.args.args
        defaults = dict(zip([a.arg for a in pos_params[len(pos_params) - len(fn.args.defaults):]], fn.args.defaults))
        defaults.update({a.arg: d for a, d in zip(fn.args.kwonlyargs, fn.args.kw_defaults) if d is not None})
        for pname, _k, enc, tg in params:
            if enc is None:
                if pname in defaults:
                    bad("CONV.default", pname, f"parameter {pname} gained a default")
                continue
            d = defaults.get(pname)
            if not (isinstance(d, ast.Name) and d.id in ns):
                bad("CONV.default", pname, f"default of {pname} is rendered as `{norm(d) if d else None}` instead of a namespace constant")
                continue
            if tg is not None and ns[d.id].get("tag") != tg or tg is None and ns[d.id].get("type") != enc["t"]:
                bad("CONV.default", pname, f"default of {pname} is bound to another object ({ns[d.id].get('repr')})")
            if d.id in [p[0] for p in params] or d.id == cname:
                bad("CONV.default", pname, f"default variable `{d.id}` clashes with a parameter or the converter name")
        # body: return coercer(first, ctx)
        body_ok = len(fn.body) == 1 and isinstance(fn.body[0], ast.Return) and isinstance(fn.body[0].value, ast.Call)
        if not body_ok:
            bad("CONV.body", "body", "body is not `return coercer(first, ctx)`")
            continue
        call = fn.body[0].value
        cvar = call.func.id if isinstance(call.func, ast.Name) else None
        if cvar is None or ns.get(cvar, {}).get("tag") != "coercer" or cvar in [p[0] for p in params] or cvar == cname:
            bad("CONV.body", norm(call.func), f"the callee `{norm(call.func)}` is not the top-level coercer (namespace: "
                f"{ns.get(cvar, {}).get('tag') if cvar else None}; shadowed by a parameter or by the converter itself otherwise)")
        extra = [p[0] for p in params[1:]]
        want_ctx = "None" if not extra else (extra[0] if len(extra) == 1 else "(" + ", ".join(extra) + ")")
        if len(call.args) != 2 or call.keywords or norm(call.args[0]) != params[0][0] or norm(call.args[1]) != want_ctx:
            bad("CONV.ctx-passing", norm(call), f"call `{norm(call)}` must pass the first parameter and the context `{want_ctx}` "
                "(None / the single extra parameter / the tuple of extra parameters in order)")
        rest = [norm(s) for s in tree.body[1:]]
        if f"{cname}.__signature__ = _closure_signature" not in rest:
            bad("CONV.signature-attr", "__signature__", "the converter does not expose the requested signature")
        names = [s for s in rest if s.startswith(f"{cname}.__name__ = ")]
        if not names or ast.literal_eval(names[-1].split(" = ", 1)[1]) != r["function_name"]:
            bad("CONV.name-attr", "__name__", f"__name__ is not the requested function name {r['function_name']!r}")
        uw = f"_update_wrapper({cname}, _stub_function)"
        if r["stub"] != (uw in rest):
            bad("CONV.update-wrapper", uw, "update_wrapper must be applied exactly when a stub function exists")
        if uw in rest and f"{cname}.__signature__ = _closure_signature" in rest \
                and rest.index(uw) > rest.index(f"{cname}.__signature__ = _closure_signature"):
            bad("CONV.update-wrapper", uw, "update_wrapper after the signature assignment overwrites nothing today but the "
                "order signature-last is the documented one")
        if r["stub"] and ns.get("_stub_function", {}).get("tag") != "stub":
            bad("CONV.update-wrapper", "_stub_function", "the wrapped object is not the stub")
    res.count("CONV.programs", m, 30)


# ------------------------------------------------------------------------------------------------ C13: whole pipeline
def _link_oracle(cfg: dict, level: str) -> Tuple[Optional[List[Tuple]], Optional[str]]:
    """Expected argument descriptors of the constructor call for the model at `level` ('top' | 'inner'), computed from the
    property statement alone; (None, reason) when the converter must be refused."""
    params: List[str] = cfg["params"]
    model = cfg if level == "top" else cfg["inner"]
    src_fields: List[str] = list(model["src_fields"])
    dst_fields = [tuple(x) for x in model["dst_fields"]]
    out: List[Tuple] = []
    if level == "top" and cfg.get("inner"):
        sub, why = _link_oracle(cfg, "inner")
        if sub is None:
            return None, "nested model: " + str(why)
        out.append(("nested",))
        src_fields = src_fields + ["n"]
    if level == "top" and cfg.get("dict_field"):
        # Dict[str, int] -> Dict[str, int]: converted element-wise (a coercer closure), never handed over
        out.append(("field", "m", True))
    for name, optional in dst_fields:
        chosen: Optional[Tuple] = None
        for i, it in enumerate(cfg["recipe"]):
            if it["k"] == "allow" or it.get("level", "top") != level or it["dst"] != name:
                continue
            k = it["k"]
            if k == "link":
                # fields of this model first (declaration order), then the converter parameters right to left
                if it["src"] in src_fields and it["src"] != "n":
                    chosen = ("field", it["src"], bool(it.get("coercer")))
                elif it["src"] in params:
                    idx = max(j for j, p in enumerate(params) if p == it["src"])
                    chosen = ("param", idx, bool(it.get("coercer")))
            elif k == "link_re":
                # regular expression over field ids: first matching field in declaration order, else the rightmost
                # matching converter parameter
                fm = [f for f in src_fields if f in it["alts"] and f != "n"]
                pm = [j for j, p in enumerate(params) if p in it["alts"]]
                if fm:
                    chosen = ("field", fm[0], False)
                elif pm:
                    chosen = ("param", max(pm), False)
            elif k == "link_typed":
                if it["src"] in src_fields:
                    chosen = ("field", it["src"], False)
            elif k == "link_param":
                if it["param"] in params:
                    chosen = ("param", params.index(it["param"]), False)
            elif k == "const":
                chosen = ("const", it["value"])
            elif k == "const_factory":
                chosen = ("factory", f"factory:{i}")
            elif k == "func_builtin":
                chosen = ("builtin-call", it["func"])
            elif k == "func":
                if any(kw not in src_fields for kw in it["kwonly"]) or any(p not in params for p in it["pos"]):
                    return None, f"link_function parameter without source for {name}"
                chosen = ("func", f"linked:{i}", [("param", params.index(p), False) for p in it["pos"]],
                          [(kw, ("field", kw, False)) for kw in it["kwonly"]])
            if chosen is not None:
                break
        if chosen is None:
            if level == "top" and name in params:
                chosen = ("param", max(j for j, p in enumerate(params) if p == name), False)
            elif name in src_fields:
                chosen = ("field", name, False)
        if chosen is None:
            if not optional:
                return None, f"required field {name} has no source"
            allowed = any(it["k"] == "allow" and it["dst"] == name and it.get("level", "top") == level for it in cfg["recipe"])
            if not allowed:
                return None, f"optional field {name} unlinked and the default policy forbids it"
            out.append(("skipped",))
            continue
        if cfg.get("same_type_coercer") and chosen[0] in ("field", "param"):
            chosen = (chosen[0], chosen[1], True)      # coercer(int, int, f) applies to every int -> int link
        out.append(chosen)
    return out, None


def _describe_arg(e: ast.expr, ns: Dict[str, dict], n_params: int) -> Tuple:
    """descriptor of an emitted constructor argument"""
    def base(x: ast.expr) -> Optional[Tuple]:
        if isinstance(x, ast.Attribute) and isinstance(x.value, ast.Name) and x.value.id == "data":
            return ("field", x.attr)
        if isinstance(x, ast.Name) and x.id == "ctx":
            return ("param", 0) if n_params == 1 else ("ctx-whole",)
        if isinstance(x, ast.Subscript) and isinstance(x.value, ast.Name) and x.value.id == "ctx" and isinstance(x.slice, ast.Constant):
            return ("param", x.slice.value) if n_params != 1 else ("ctx-indexed-with-one-param",)
        return None
    b = base(e)
    if b is not None:
        return b + (False,)
    if isinstance(e, ast.Call) and isinstance(e.func, ast.Name):
        d = ns.get(e.func.id, {})
        tag = d.get("tag")
        for bname in ("list", "tuple"):
            if (d.get("repr") == f"<class '{bname}'>" or (not d and e.func.id == bname)) and len(e.args) == 1 and not e.keywords \
                    and isinstance(e.args[0], ast.Name) and e.args[0].id == "data":
                return ("builtin-call", bname)
        if tag and tag.startswith("linked:"):
            pos = [_describe_arg(a, ns, n_params) for a in e.args]
            kws = sorted((str(k.arg), _describe_arg(k.value, ns, n_params)) for k in e.keywords)
            return ("func", tag, pos, kws)
        if tag and tag.startswith("factory:") and not e.args and not e.keywords:
            return ("factory", tag)
        if len(e.args) == 2 and not e.keywords and isinstance(e.args[1], ast.Name) and e.args[1].id == "ctx":
            b = base(e.args[0])
            if b is not None:
                if ("coerce_SrcInner_to_DstInner" in d.get("repr", "") or "coerce_DstInner_to_DstInner" in d.get("repr", "")) \
                        and b[0] in ("field", "param"):
                    return ("nested", b)
                return b + (True,)
    try:
        return ("const", _eval_literal(norm(e)))
    except Exception:  # noqa: BLE001
        pass
    if isinstance(e, ast.Name) and e.id in ns:
        return ("const-ns", ns[e.id].get("repr"))
    return ("?", norm(e)[:60])


def c13_pipeline_checks(repo: Repo, tier: str, res: CheckResult, seed: int) -> None:
    recs = [r for r in run_child(repo, tier, seed, "convpipe") if r.get("kind") == "convpipe"]
    n = n_ok = 0
    MCP = "adaptix/_internal/conversion/model_coercer_provider.py"
    for r in recs:
        if r.get("harness_error"):
            raise AnalysisError(f"convpipe harness failed on configuration {r['idx']}: {r['harness_error']}")
        cfg = r["cfg"]
        n += 1
        cdesc = json.dumps(cfg, sort_keys=True)
        ident = f"G:convpipe:{r['idx']}"
        res.evaluated(ident, True)
        want_top, why = _link_oracle(cfg, "top")

        def bad(rule: str, construct: str, msg: str) -> None:
            res.add(Finding("C13", rule, MCP, "ModelCoercerProvider", construct[:160],
                            f"converter for configuration #{r['idx']} {cdesc[:400]}: {msg}", 0, extra={"cfg": cfg}))
        if want_top is None:
            if r["error"] is None:
                bad("PIPE.unlinked-accepted", "converter created", f"a converter was produced although {why}")
            continue
        if r["error"] is not None:
            bad("PIPE.refused", f"creation failed: {r['error']}", "every destination field has a source by the documented "
                f"rules ({want_top}) but the converter could not be created")
            continue
        n_ok += 1
        n_params = len(cfg["params"])
        inner_name = "coerce_DstInner_to_DstInner" if cfg.get("same_inner") else "coerce_SrcInner_to_DstInner"
        for level, dname, fname in (("top", "Dst", "coerce_Src_to_Dst"), ("inner", "DstInner", inner_name)):
            if level == "inner" and not cfg.get("inner"):
                continue
            want, _ = _link_oracle(cfg, level)
            cl = [c for c in r["closures"] if f"def {fname}(" in c["source"]]
            if len(cl) != 1:
                bad("PIPE.closures", fname, f"expected one generated coercer {fname}, found {len(cl)}")
                continue
            src = cl[0]["source"]
            # the hook sees the wrapped module text: assignments `name = g_name`, the def, `return name`
            body = "\n".join(l for l in src.split("\n") if not l.startswith("return "))
            try:
                tree = ast.parse(body)
            except SyntaxError as ex:
                bad("PIPE.does-not-parse", fname, f"emitted source does not parse: {ex}")
                continue
            alias = {}
            for st in tree.body:
                if isinstance(st, ast.Assign) and isinstance(st.targets[0], ast.Name) and isinstance(st.value, ast.Name):
                    alias[st.targets[0].id] = st.value.id
            ns = {name: cl[0]["namespace"].get(g, {}) for name, g in alias.items()}
            for name, g in alias.items():      # `list_1 = list`: a builtin rendered by its own name
                if not ns[name] and g in ("list", "tuple", "dict", "set", "frozenset"):
                    ns[name] = {"repr": f"<class '{g}'>"}
            fn = next((x for x in tree.body if isinstance(x, ast.FunctionDef)), None)
            if fn is None or len(fn.body) != 1 or not isinstance(fn.body[0], ast.Return) or not isinstance(fn.body[0].value, ast.Call):
                bad("PIPE.body", fname, "the coercer is not a single `return Constructor(...)`")
                continue
            call = fn.body[0].value
            if not (isinstance(call.func, ast.Name) and dname in ns.get(call.func.id, {}).get("repr", "")):
                bad("PIPE.constructor", norm(call.func), f"the result is not built by the destination class {dname}")
                continue
            dst_names = (["n"] if level == "top" and cfg.get("inner") else []) + (["m"] if level == "top" and cfg.get("dict_field") else []) \
                + [x[0] for x in (cfg if level == "top" else cfg["inner"])["dst_fields"]]
            got: Dict[str, Tuple] = {}
            for i, a in enumerate(call.args):
                if i < len(dst_names):
                    got[dst_names[i]] = _describe_arg(a, ns, n_params)
                else:
                    got[f"#{i}"] = ("?", norm(a)[:40])
            for k in call.keywords:
                got[k.arg or "**"] = _describe_arg(k.value, ns, n_params)
            exp: Dict[str, Tuple] = {}
            for nm, w in zip(dst_names, want):
                if w[0] == "skipped":
                    continue
                if w[0] == "nested":
                    # the nested source model: the field `n` of the source, or the converter parameter `n`
                    exp[nm] = ("nested", ("param", cfg["params"].index("n")) if cfg.get("inner_param") else ("field", "n"))
                elif w[0] == "func":
                    exp[nm] = ("func", w[1], [("field?",)] + [tuple(x) for x in w[2]], sorted((k, tuple(v)) for k, v in w[3]))
                else:
                    exp[nm] = tuple(w)
            # normalise the function descriptor: first positional argument is the model itself
            for nm, g in list(got.items()):
                if g[0] == "func":
                    pos = list(g[2])
                    first = pos[0] if pos else None
                    model_ok = first == ("?", "data")
                    got[nm] = ("func", g[1], [("field?",) if model_ok else first] + pos[1:], g[3])
            if got != exp:
                diffs = [f"{k}: emitted {got.get(k)} expected {exp.get(k)}" for k in sorted(set(got) | set(exp)) if got.get(k) != exp.get(k)]
                bad("PIPE.wrong-source", "; ".join(diffs)[:150],
                    f"{fname}: `{norm(call)[:200]}` does not build the destination field-wise from the documented sources: "
                    + "; ".join(diffs)[:400])
        if len(res.samples) < 8 and n_ok % 25 == 1:
            res.sample({"configuration": cfg, "expected_top": [list(map(str, w)) for w in want_top], "verdict": "agrees"})
    res.count("PIPE.configurations", n, 150)
    res.count("PIPE.converters-produced", n_ok, 35)


# ================================================================================================ C03: whole layout pipeline
def _style_oracle(name: str, style: Optional[str]) -> str:
    """name style conversion of a snake_case identifier, written from the documentation table"""
    if style is None:
        return name
    core = name.strip("_")
    front = name[:len(name) - len(name.lstrip("_"))]
    back = name[len(name.rstrip("_")):] if core else ""
    words = core.split("_")
    if style == "camel":
        conv = words[0].lower() + "".join(w.title() for w in words[1:])
    elif style == "pascal":
        conv = "".join(w.title() for w in words)
    elif style == "upper_snake":
        conv = "_".join(w.upper() for w in words)
    elif style == "lower_kebab":
        conv = "-".join(w.lower() for w in words)
    elif style == "lower":
        conv = "".join(w.lower() for w in words)
    else:
        raise AnalysisError(f"oracle: unknown style {style}")
    return front + conv + back


def _pred_matches(pred: str, field: str) -> bool:
    if pred.isidentifier():
        return pred == field
    return re.fullmatch(pred, field) is not None


def _layout_oracle(cfg: dict, fields: List[List], direction: str):
    """({field: path or None}, extra policy, sieved fields, error or None) by the documented rules"""
    nms = cfg["nms"]

    def scalar(key, default):
        for nm in nms:
            if key in nm:
                return nm[key]
        return default
    trim = scalar("trim_trailing_underscore", True)
    style = scalar("name_style", None)
    as_list = scalar("as_list", False)
    skip = scalar("skip", [])
    only = scalar("only", None)
    omit = scalar("omit_default", False)
    extra = scalar("extra_in" if direction == "loader" else "extra_out", "skip")
    maps = [el for nm in nms for el in nm.get("map", [])]
    order = [f[0] for f in fields]
    req = {f[0]: f[1] for f in fields}
    paths: Dict[str, Optional[Tuple]] = {}
    for f in order:
        if extra == "rest" and f == "rest":
            continue
        if as_list:
            gen: Any = order.index(f)
        else:
            name = f
            if trim and name.endswith("_") and not name.endswith("__"):
                name = name.rstrip("_")
            gen = _style_oracle(name, style)
        result: Any = "<none>"
        for el in maps:
            if el["t"] == "dict":
                if f in el["m"]:
                    result = el["m"][f]
                    break
            elif _pred_matches(el["pred"], f):
                result = el["v"]
                break
        if result == "<none>" and direction == "dumper" and f.startswith("_"):
            result = None
        if result == "<none>":
            path: Optional[Tuple] = (gen,)
        elif result is None:
            path = None
        elif result == "...":
            path = (gen,)
        elif isinstance(result, list):
            path = tuple(gen if x == "..." else x for x in result)
        else:
            path = (result,)
        if path is not None and (f in skip or (only is not None and f not in only)):
            path = None
        paths[f] = path
    # validation
    err = None
    if direction == "loader" and any(p is None and req[f] for f, p in paths.items()):
        err = "required field skipped"
    present = {f: p for f, p in paths.items() if p is not None}
    vals = list(present.values())
    if len(set(vals)) != len(vals):
        err = err or "duplicate paths"
    for p1 in vals:
        for p2 in vals:
            if p1 != p2 and len(p1) < len(p2) and p2[:len(p1)] == p1:
                err = err or "prefix"
    if direction == "loader" and any(isinstance(p[-1], int) and not req[f] for f, p in present.items()):
        err = err or "optional field in list"
    kinds: Dict[Tuple, set] = {}
    for p in vals:
        for i in range(len(p)):
            kinds.setdefault(p[:i], set()).add(type(p[i]).__name__)
    if any(len(k) > 1 for k in kinds.values()):
        err = err or "inconsistent path elements"
    # extras are merged into / collected from mappings: a list root (dumper) or any list node (collecting loader) has no
    # place for them -- documented refusals
    if direction == "loader" and extra == "rest" and any(isinstance(k, int) for p in vals for k in p):
        err = err or "collecting extra_in with list mapping"
    root_is_list = (bool(vals) and isinstance(vals[0][0], int)) or (not vals and as_list)
    if direction == "dumper" and extra == "rest" and root_is_list:
        err = err or "extra_out with list mapping"
    sieved = set()
    if direction == "dumper":
        for f, p in present.items():
            # an element of a list cannot be left out (positions are significant): only dict entries are sieved
            if not req[f] and isinstance(p[-1], str) and (omit is True or (isinstance(omit, list) and f in omit)):
                sieved.add(f)
    return paths, extra, sieved, err, kinds


def _parse_hook_source(src: str) -> Tuple[Optional[ast.FunctionDef], Dict[str, str]]:
    body = "\n".join(l for l in src.split("\n") if not l.startswith("return "))
    tree = ast.parse(body)
    alias = {}
    for st in tree.body:
        if isinstance(st, ast.Assign) and isinstance(st.targets[0], ast.Name) and isinstance(st.value, ast.Name):
            alias[st.targets[0].id] = st.value.id
    fn = next((x for x in tree.body if isinstance(x, ast.FunctionDef)), None)
    return fn, alias


def c03_layout_checks(repo: Repo, tier: str, res: CheckResult, seed: int) -> None:
    from .genaudit import audit_dumper, audit_loader
    recs = [r for r in run_child(repo, tier, seed, "layoutpipe") if r.get("kind") == "layoutpipe"]
    # single-word ids with capitals under every name style (a small fixed family of its own: the random stream above is untouched)
    recs += [r for r in run_child(repo, tier, seed, "stylepipe") if r.get("kind") == "layoutpipe"]
    NL = "adaptix/_internal/morphing/name_layout/component.py"
    n = n_prog = 0
    for r in recs:
        if r.get("harness_error"):
            raise AnalysisError(f"layoutpipe harness failed on configuration {r['idx']}: {r['harness_error']}")
        cfg = r["cfg"]
        n += 1
        cdesc = json.dumps({k: v for k, v in cfg.items() if k != "with_rest"}, sort_keys=True)
        res.evaluated(f"G:layoutpipe:{r['idx']}", True)
        for direction in ("loader", "dumper"):
            paths, extra, sieved, err, kinds = _layout_oracle(cfg, r["fields"], direction)
            got = r[direction]

            def bad(rule: str, construct: str, msg: str) -> None:
                res.add(Finding("C03", rule, NL, "BuiltinStructureMaker", construct[:160],
                                f"{direction} for name_mapping configuration #{r['idx']} {cdesc[:500]}: {msg}", 0,
                                extra={"cfg": cfg}))
            if err is not None:
                if got["error"] is None:
                    bad("LAYOUT.invalid-accepted", f"{direction} created", f"a {direction} was produced although the layout is "
                        f"invalid ({err}; paths {paths})")
                continue
            if got["error"] is not None:
                bad("LAYOUT.refused", f"creation failed: {got['error']}", f"the documented rules give the valid layout {paths} but "
                    f"the {direction} could not be created")
                continue
            if len(got["sources"]) != 1:
                raise AnalysisError(f"layoutpipe #{r['idx']}: expected one emitted {direction}, found {len(got['sources'])}")
            n_prog += 1
            try:
                fn, alias = _parse_hook_source(got["sources"][0])
            except SyntaxError as ex:
                bad("LAYOUT.does-not-parse", direction, f"emitted source does not parse: {ex}")
                continue
            present = {f: p for f, p in paths.items() if p is not None}
            if direction == "loader":
                S = audit_loader(fn)
                reads = {}
                for rd in S.reads:
                    if rd.via in ("loader", "as-is") and rd.path is not None:
                        reads.setdefault(rd.field_id, set()).add(tuple(rd.path))
                exp = {f: {p} for f, p in present.items()}
                if reads != exp:
                    diffs = [f"{f}: read from {sorted(map(list, reads.get(f, [])))} expected {list(present[f]) if f in present else 'not read'}"
                             for f in sorted(set(reads) | set(exp)) if reads.get(f) != exp.get(f)]
                    bad("LAYOUT.field-path", "; ".join(diffs)[:150], "the loader does not take each field from the path the "
                        "documented rules assign (map > trim/name_style, first matching map entry, skip > only, as_list index = "
                        "position in the model): " + "; ".join(diffs)[:400])
                has_forbid = bool(S.forbid_checks)
                if (extra == "forbid") != has_forbid:
                    bad("LAYOUT.extra-policy", f"forbid check present={has_forbid}", f"extra_in={extra} but the program "
                        f"{'checks' if has_forbid else 'does not check'} for unknown keys")
                collects = any(rd.via == "extra" for rd in S.reads)
                if (extra == "rest") != collects:
                    bad("LAYOUT.extra-policy", f"extras collected={collects}", f"extra_in={extra} but extras are "
                        f"{'collected' if collects else 'not collected'} into the target field")
            else:
                S = audit_dumper(fn)
                written = {}
                placeholders = []
                for pth, ent in S.tree.items():
                    if ent[0] in ("field", "opt-field"):
                        written.setdefault(ent[1], set()).add(tuple(pth))
                    elif ent[0] == "placeholder":
                        placeholders.append(tuple(pth))
                exp = {f: {p} for f, p in present.items()}
                if written != exp:
                    diffs = [f"{f}: written to {sorted(map(list, written.get(f, [])))} expected {list(present[f]) if f in present else 'not written'}"
                             for f in sorted(set(written) | set(exp)) if written.get(f) != exp.get(f)]
                    bad("LAYOUT.field-path", "; ".join(diffs)[:150], "the dumper does not write each field to the path the "
                        "documented rules assign: " + "; ".join(diffs)[:400])
                # list gaps -> None placeholders
                want_gaps = set()
                for prefix, ks in kinds.items():
                    if ks == {"int"}:
                        idxs = {p[len(prefix)] for p in present.values() if p[:len(prefix)] == prefix and len(p) > len(prefix)}
                        want_gaps |= {prefix + (i,) for i in range(max(idxs)) if i not in idxs}
                if set(placeholders) != want_gaps:
                    bad("LAYOUT.list-gaps", f"placeholders at {sorted(map(list, placeholders))}", "list layouts must fill exactly "
                        f"the gaps {sorted(map(list, want_gaps))} with None placeholders")
                if S.node_conds:
                    bad("LAYOUT.omit-default", "conditional container node",
                        f"omit_default makes fields conditional, never the containers that hold them; the program writes the "
                        f"node(s) {sorted(map(list, S.node_conds))} only when `{next(iter(S.node_conds.values()))}`")
                got_sieved = {ent[1] for ent in S.tree.values() if ent[0] in ("field", "opt-field") and ent[2] is not None}
                if got_sieved != sieved:
                    bad("LAYOUT.omit-default", f"conditional fields {sorted(got_sieved)}", f"omit_default must make exactly the "
                        f"fields {sorted(sieved)} conditional")
                has_extra = S.extra_source is not None
                if (extra == "rest") != has_extra:
                    bad("LAYOUT.extra-policy", f"extra source {S.extra_source}", f"extra_out={extra} but the program "
                        f"{'merges' if has_extra else 'does not merge'} extras")
        if len(res.samples) < 10 and n % 29 == 1:
            res.sample({"configuration": cfg, "loader_paths": {k: (list(v) if v else None) for k, v in _layout_oracle(cfg, r['fields'], 'loader')[0].items()},
                        "verdict": "agrees"})
    res.count("LAYOUT.configurations", n, 120)
    res.count("LAYOUT.programs-audited", n_prog, 80)


# ================================================================================================ C01: loader/dumper symmetry
def c01_checks(repo: Repo, tier: str, res: CheckResult, seed: int) -> None:
    """For every layout configuration with both programs: fields handled by both are read from the path they are written
    to; a list node of the dumper is a list node of the loader. No oracle: the two emitted programs are compared."""
    from .genaudit import audit_dumper, audit_loader
    recs = [r for r in run_child(repo, tier, seed, "layoutpipe") if r.get("kind") == "layoutpipe"]
    # models whose input and output shapes differ (init=False fields): same comparison
    recs += [r for r in run_child(repo, tier, seed, "outonly") if r.get("kind") == "layoutpipe_outonly"]
    NL = "adaptix/_internal/morphing/name_layout/component.py"
    n = n_fields = 0
    shifted: List[str] = []
    for r in recs:
        if r.get("harness_error"):
            raise AnalysisError(f"layoutpipe harness failed on configuration {r['idx']}: {r['harness_error']}")
        L, D = r["loader"], r["dumper"]
        if L["error"] is not None or D["error"] is not None or len(L["sources"]) != 1 or len(D["sources"]) != 1:
            continue
        try:
            lf, _ = _parse_hook_source(L["sources"][0])
            df, _ = _parse_hook_source(D["sources"][0])
        except SyntaxError:
            continue      # reported by C03 / C19
        n += 1
        res.evaluated(f"G:roundtrip-layout:{r['idx']}", True)
        SL, SD = audit_loader(lf), audit_dumper(df)
        reads: Dict[str, Set[Tuple]] = {}
        for rd in SL.reads:
            if rd.via in ("loader", "as-is") and rd.path is not None:
                reads.setdefault(rd.field_id, set()).add(tuple(rd.path))
        written: Dict[str, Set[Tuple]] = {}
        for pth, ent in SD.tree.items():
            if ent[0] in ("field", "opt-field"):
                written.setdefault(ent[1], set()).add(tuple(pth))
        cdesc = json.dumps({k: v for k, v in r["cfg"].items() if k != "with_rest"}, sort_keys=True)[:400]
        for f in sorted(set(reads) & set(written)):
            n_fields += 1
            if reads[f] != written[f] and r["kind"] == "layoutpipe_outonly" and "as_list" in cdesc and "map" not in cdesc:
                # positions computed from each shape's own field list: one defect, reported once for all models of the family
                shifted.append(f"{r['cfg']['model']}.{f}:{sorted(map(list, written[f]))}/{sorted(map(list, reads[f]))}")
                continue
            if reads[f] != written[f]:
                res.add(Finding("C01", "ROUNDTRIP.path-asymmetry", NL, "BuiltinStructureMaker",
                                f"field {f}: dumped to {sorted(map(list, written[f]))}, loaded from {sorted(map(list, reads[f]))}"[:160],
                                f"name_mapping configuration #{r['idx']} {cdesc}: the dumper writes field `{f}` to "
                                f"{sorted(map(list, written[f]))} but the loader of the same retort takes it from "
                                f"{sorted(map(list, reads[f]))}: load(dump(x)) cannot give the field back", 0, extra={"cfg": r["cfg"]}))
        # a container node the dumper writes only under a condition is a node the loader may not find: the emitted loader reaches
        # every field below it through that node (no program of the family tolerates a missing intermediate node)
        for npath, cond in SD.node_conds.items():
            below = sorted(f for f, ps in reads.items() if any(tuple(p[:len(npath)]) == tuple(npath) for p in ps))
            if below:
                res.add(Finding("C01", "ROUNDTRIP.node-dumped-conditionally", NL, "BuiltinStructureMaker",
                                f"node {list(npath)} written only when `{cond}`"[:160],
                                f"name_mapping configuration #{r['idx']} {cdesc}: the dumper writes the container node {list(npath)} only "
                                f"when `{cond}`, but the loader of the same retort reads the fields {below} through that node and reports "
                                "a missing key when it is absent: load(dump(x)) raises for every x whose dump omits the node", 0,
                                extra={"cfg": r["cfg"]}))
        # container kinds along the written paths: an int step of the dumper is an int step of the loader
        lkinds = {tuple(p[:i]) + (type(p[i]).__name__,) for ps in reads.values() for p in ps for i in range(len(p))}
        dkinds = {tuple(p[:i]) + (type(p[i]).__name__,) for f, ps in written.items() if f in reads for p in ps for i in range(len(p))}
        if not dkinds <= lkinds:
            bad = sorted(map(list, dkinds - lkinds))[:3]
            res.add(Finding("C01", "ROUNDTRIP.node-kind-asymmetry", NL, "BuiltinStructureMaker", f"node kinds differ at {bad}"[:160],
                            f"name_mapping configuration #{r['idx']} {cdesc}: the dumper builds list/dict nodes where the loader "
                            f"expects the other kind ({bad})", 0, extra={"cfg": r["cfg"]}))
        if len(res.samples) < 12 and n % 31 == 1:
            res.sample({"configuration": r["cfg"], "fields compared": sorted(set(reads) & set(written)), "verdict": "same paths"})
    if shifted:
        res.add(Finding("C01", "ROUNDTRIP.as-list-position-per-shape", NL, "BuiltinStructureMaker._generate_key", " ".join(sorted(set(shifted))),
                        "name_mapping(as_list=True) on a model with an output-only field (dataclass field(init=False)) before a loaded one: "
                        "the list position of a field is its index in the field list of the shape at hand, and the output shape has one "
                        f"field more than the input shape -- dumped/loaded positions {sorted(set(shifted))}: load(dump(x)) reads "
                        "every later field from its neighbour's slot", 0))
    res.count("ROUNDTRIP.configurations", n, 25)
    res.count("ROUNDTRIP.fields-compared", n_fields, 80)
    # the model-kind family: all-required models exist there, so list layouts (as_list) have a loader too
    m = 0
    for r in run_child(repo, tier, seed, "kinds"):
        if r.get("kind") != "kinds" or r.get("harness_error") or r.get("inexpressible"):
            continue
        L, D = r["loader"], r["dumper"]
        if L["error"] is not None or D["error"] is not None or not L["source"] or not D["source"]:
            continue
        try:
            lf, _ = _parse_hook_source(L["source"])
            df, _ = _parse_hook_source(D["source"])
        except SyntaxError:
            continue
        m += 1
        ident = f"{r['spec']}/{r['nm']}/{r['model_kind']}/{r['debug_trail']}"
        res.evaluated(f"G:roundtrip-kinds:{ident}", True)
        SL, SD = audit_loader(lf), audit_dumper(df)
        reads = {}
        for rd in SL.reads:
            if rd.via in ("loader", "as-is") and rd.path is not None:
                reads.setdefault(rd.field_id, set()).add(tuple(rd.path))
        written = {}
        for pth, ent in SD.tree.items():
            if ent[0] in ("field", "opt-field"):
                written.setdefault(ent[1], set()).add(tuple(pth))
        for f in sorted(set(reads) & set(written)):
            if reads[f] != written[f]:
                res.add(Finding("C01", "ROUNDTRIP.path-asymmetry", NL, "BuiltinStructureMaker",
                                f"{r['model_kind']} field {f}: dumped to {sorted(map(list, written[f]))}, loaded from {sorted(map(list, reads[f]))}"[:160],
                                f"model {r['spec']} as {r['model_kind']} under name_mapping `{r['nm']}`: the dumper writes field `{f}` to "
                                f"{sorted(map(list, written[f]))} but the loader takes it from {sorted(map(list, reads[f]))}", 0))
    res.count("ROUNDTRIP.kind-models", m, 100)


# ================================================================================================ C17: model kinds (tier G)
def _kind_loader_fp(rec: dict) -> Any:
    from .genaudit import audit_loader
    L = rec["loader"]
    if L["error"] is not None or L["source"] is None:
        return {"error": L["error"] or "no program"}
    fn, alias = _parse_hook_source(L["source"])
    S = audit_loader(fn)
    ns = L["namespace"]

    def binding(name: str) -> str:
        g = alias.get(name)
        d = ns.get(g, {}) if g else {}
        q = d.get("qualname") or d.get("callable") or d.get("repr", "?")
        return re.sub(r" at 0x[0-9a-f]+", "", str(q))
    reads = sorted((r.field_id, repr(r.path), r.via, binding("loader_" + r.field_id) if r.via == "loader" else "-") for r in S.reads)
    defaults = {}
    for k, v in S.defaults.items():
        outs = []
        for d in sorted(set(v)):
            if re.fullmatch(r"dfl_\w+\(\)", d):
                outs.append("call:" + binding(d[:-2]))
            elif re.fullmatch(r"dfl_\w+", d):
                outs.append("const:" + ns.get(alias.get(d, ""), {}).get("type", "?") + ":" + ns.get(alias.get(d, ""), {}).get("repr", "?"))
            else:
                outs.append("lit:" + d)
        defaults[k] = outs
    # a default that needs the half-built instance (attrs takes_self) is the constructor's business in that kind and the loader's
    # in the others: who supplies it is a documented per-kind difference, the value is compared by KIND.default-left-to-constructor
    for fname, _ft, fdef in rec.get("fields", []):
        if fdef is not None and fdef[0] == "ts":
            defaults.pop(fname, None)
    defaults = {k: v for k, v in defaults.items() if not k.startswith("packed:")}
    groups = {"AggregateLoadError", "CompatExceptionGroup", "UnionLoadError"}
    return {
        "reads": reads,
        "defaults": defaults,
        "rejects": sorted({(c, repr(p)) for c, p, _t, _l, _x in S.rejects if c not in groups}),
        "forbid": sorted((a, b) for a, b, _ in S.forbid_checks),
        "len": sorted((a, b, c) for a, b, c, _ in S.len_checks),
        "trails": sorted({(r.field_id, repr(r.trail)) for r in S.reads}),
    }


def _kind_dumper_fp(rec: dict) -> Any:
    from .genaudit import audit_dumper
    D = rec["dumper"]
    if D["error"] is not None or D["source"] is None:
        return {"error": D["error"] or "no program"}
    fn, alias = _parse_hook_source(D["source"])
    S = audit_dumper(fn)
    ns = D["namespace"]

    def binding(name: str) -> str:
        g = alias.get(name)
        d = ns.get(g, {}) if g else {}
        q = d.get("qualname") or d.get("callable") or d.get("repr", "?")
        return re.sub(r" at 0x[0-9a-f]+", "", str(q))
    tree = sorted((repr(p), e[0], str(e[1]), None if e[2] is None else re.sub(r"\b(f|r)_\w+\b", "V", e[2])) for p, e in S.tree.items())
    dumped = {}
    for k, v in S.field_sources.items():
        fid = v[0]
        dumped[fid] = binding("dumper_" + fid) if v[3] else "as-is"
    return {"tree": tree, "dumpers": dict(sorted(dumped.items())), "return": S.return_expr}


def c17_checks(repo: Repo, tier: str, res: CheckResult, seed: int) -> None:
    recs = run_child(repo, tier, seed, "kinds")
    groups: Dict[Tuple, Dict[str, dict]] = {}
    for r in recs:
        if r.get("kind") != "kinds":
            continue
        if r.get("harness_error"):
            raise AnalysisError(f"kinds harness failed ({r.get('model_kind')}, {r.get('spec')}): {r['harness_error']}")
        if r.get("inexpressible"):
            continue
        groups.setdefault((r["spec"], r["nm"], r["debug_trail"]), {})[r["model_kind"]] = r
    n = n_cmp = 0
    SHP = "adaptix/_internal/provider/shape_provider.py"
    for key, by_kind in sorted(groups.items()):
        n += 1
        res.evaluated("G:kinds:" + "/".join(key), True)
        base_kind = "dataclass" if "dataclass" in by_kind else sorted(by_kind)[0]
        # every kind: each constructor argument carries the field its parameter is named after
        for kind, rec in by_kind.items():
            L = rec["loader"]
            if L["error"] is not None or L["source"] is None or not rec.get("ctor_params"):
                continue
            from .genaudit import audit_loader
            fn_, _alias = _parse_hook_source(L["source"])
            S_ = audit_loader(fn_)
            if len(S_.ctor_calls) != 1:
                continue
            call = S_.ctor_calls[0]
            params = [p for p in rec["ctor_params"] if p[1] not in ("VAR_POSITIONAL", "VAR_KEYWORD")]
            field_of = lambda pname: {f[0].lstrip("_"): f[0] for f in rec["fields"]}.get(pname.lstrip("_"), pname)   # noqa: E731
            wrong = []
            for i, a in enumerate(call.args):
                if isinstance(a, ast.Name) and a.id.startswith("f_") and i < len(params):
                    if a.id[2:] != field_of(params[i][0]):
                        wrong.append(f"positional argument {i} is `{a.id}` but parameter {i} of {kind} model is `{params[i][0]}`")
            for k in call.keywords:
                if k.arg is not None and isinstance(k.value, ast.Name) and k.value.id.startswith("f_"):
                    if k.value.id[2:] != field_of(k.arg):
                        wrong.append(f"parameter `{k.arg}` receives `{k.value.id}`")
            # packed arguments (`packed_fields['name'] = ...` passed as **packed_fields) are keyed by the PARAMETER of the field
            pnames = {p[0] for p in rec["ctor_params"]}
            has_var_kw = any(p[1] == "VAR_KEYWORD" for p in rec["ctor_params"])
            for r_ in S_.reads:
                if r_.target.startswith("packed:"):
                    pk = r_.target[len("packed:"):]
                    if (pk not in pnames and not has_var_kw) or field_of(pk) != r_.field_id:
                        wrong.append(f"field `{r_.field_id}` is packed under the keyword `{pk}`, the parameters of the {kind} model are {sorted(pnames)}")
            res.evaluated(f"G:kinds-ctor:{'/'.join(key)}:{kind}", True)
            # a field with a default that the loader does NOT fill in for an omitted value is left to the constructor: the twins
            # agree only if the constructor of this kind has that default itself (a SQLAlchemy constructor applies no column
            # defaults, they are applied at flush; TypedDict has no constructor defaults at all)
            has_default = {field_of(p[0]): (len(p) > 2 and p[2]) for p in rec["ctor_params"]}
            read_ids = {r_.field_id for r_ in S_.reads}
            for fname, _ft, fdef in rec["fields"]:
                if fdef is None or fdef[0] not in ("v", "f", "ts") or fname not in read_ids:
                    continue
                if fname not in S_.defaults and not has_default.get(fname, False):
                    res.add(Finding("C17", "KIND.default-left-to-constructor", "adaptix/_internal/morphing/model/loader_gen.py", "_is_packed_field",
                                    f"{kind}: default of `{fname}` ({fdef[0]}) neither filled by the loader nor known to the constructor",
                                    f"logical model {key[0]} as {kind} under `{key[1]}`: the field `{fname}` has a default ({fdef[1]}) but the "
                                    f"emitted loader does not supply it when the field is omitted (it is only not passed), and the constructor "
                                    f"of the {kind} model has no default for it (parameters {[p[0] for p in rec['ctor_params']]}): an input "
                                    "without the field loads to an object that differs from the one its dataclass twin gets", 0))
            if wrong:
                res.add(Finding("C17", "KIND.constructor-binding", "adaptix/_internal/morphing/model/loader_gen.py", "_gen_constructor_call",
                                f"{kind}: " + "; ".join(wrong)[:150],
                                f"logical model {key[0]} as {kind} under `{key[1]}`: `{norm(call)[:120]}` -- {'; '.join(wrong)}. The twins of the "
                                "other kinds pass every value to the parameter of its own field, so the same input loads to different "
                                "objects depending on the kind", 0))
        for what, fpf in (("loader", _kind_loader_fp), ("dumper", _kind_dumper_fp)):
            try:
                base = fpf(by_kind[base_kind])
            except SyntaxError as ex:
                raise AnalysisError(f"kinds {key} {base_kind}: emitted {what} does not parse: {ex}")
            for kind, rec in by_kind.items():
                if kind == base_kind:
                    continue
                n_cmp += 1
                fp = fpf(rec)
                if fp == base:
                    continue
                # TypedDict shapes list their fields in alphabetical order (typed_dict._get_td_hints sorts the hints), every other
                # kind in declaration order: with list layouts the positions differ.  Recognise exactly that permutation.
                if kind == "typeddict" and "error" not in fp and "error" not in base:
                    names_ = [f[0] for f in rec["fields"]]
                    perm = {i: sorted(names_).index(nm_) for i, nm_ in enumerate(names_)}

                    def permute(o):
                        txt = json.dumps(o, default=str)
                        return json.loads(re.sub(r"\((\d+),\)", lambda mt: f"({perm.get(int(mt.group(1)), int(mt.group(1)))},)", txt)
                                          .replace("'append', ", "'append', @"))
                    def permute_trail(o):
                        txt = json.dumps(o, default=str)
                        txt = re.sub(r"\((\d+),\)", lambda mt: f"({perm.get(int(mt.group(1)), int(mt.group(1)))},)", txt)
                        txt = re.sub(r"\('append', (\d+)\)", lambda mt: f"('append', {perm.get(int(mt.group(1)), int(mt.group(1)))})", txt)
                        return json.loads(txt)
                    pb = permute_trail(base)
                    canon = lambda o: json.dumps(o, sort_keys=True, default=str)      # noqa: E731
                    same = all(sorted(map(canon, pb.get(k))) == sorted(map(canon, json.loads(json.dumps(fp.get(k), default=str))))
                               if isinstance(pb.get(k), list) else canon(pb.get(k)) == canon(json.loads(json.dumps(fp.get(k), default=str)))
                               for k in set(pb) | set(fp))
                    if same:
                        res.add(Finding("C17", "KIND.typeddict-field-order", "adaptix/_internal/model_tools/introspection/typed_dict.py",
                                        "_get_td_hints", f"list positions of TypedDict fields are alphabetical ({what})",
                                        f"the TypedDict declaration of the logical model {key[0]} gets list positions in ALPHABETICAL "
                                        f"field order under `{key[1]}` while every other kind uses declaration order "
                                        f"(_get_td_hints sorts the hints): the same input list loads into different fields / the same "
                                        f"object dumps to a differently ordered list ({what})", 0))
                        continue
                diffs = []
                for k in sorted(set(fp) | set(base)):
                    if fp.get(k) != base.get(k):
                        diffs.append(f"{k}: {kind}={json.dumps(fp.get(k), default=str)[:220]} vs {base_kind}={json.dumps(base.get(k), default=str)[:220]}")
                res.add(Finding("C17", f"KIND.{what}-differs", SHP, "BUILTIN_SHAPE_PROVIDER",
                                f"{kind} vs {base_kind}: {what} {sorted(k for k in set(fp) | set(base) if fp.get(k) != base.get(k))} under {key[1]}",
                                f"the same logical model ({key[0]}: {rec['fields']}) under name_mapping `{key[1]}` ({key[2]}) compiles to "
                                f"different {what}s for {kind} and {base_kind}: " + "; ".join(diffs)[:700], 0,
                                extra={"spec": key[0], "nm": key[1], "kinds": [kind, base_kind]}))
        if len(res.samples) < 6 and n % 11 == 1:
            res.sample({"spec": key[0], "name_mapping": key[1], "kinds": sorted(by_kind), "verdict": "fingerprints compared"})
    res.count("KIND.groups", n, 30)
    res.count("KIND.comparisons", n_cmp, 150)
    # converters between kinds copy every field
    m = 0
    for r in recs:
        if r.get("kind") != "kinds_conv":
            continue
        if r.get("harness_error"):
            raise AnalysisError(f"kinds converter harness failed: {r['harness_error']}")
        m += 1
        ident = f"{r['spec']}:{r['src_kind']}->{r['dst_kind']}"
        res.evaluated("G:kinds-conv:" + ident, True)
        MCP = "adaptix/_internal/conversion/model_coercer_provider.py"
        if r["error"] is not None or r["source"] is None:
            res.add(Finding("C17", "KIND.converter-refused", MCP, "ModelCoercerProvider", ident,
                            f"no converter from the {r['src_kind']} to the {r['dst_kind']} declaration of the same logical model "
                            f"({r['error']})", 0))
            continue
        fn, alias = _parse_hook_source(r["source"])
        call = fn.body[0].value if fn is not None and fn.body and isinstance(fn.body[0], ast.Return) else None
        if not isinstance(call, ast.Call):
            res.add(Finding("C17", "KIND.converter-shape", MCP, "ModelCoercerProvider", ident, "coercer is not a constructor call", 0))
            continue
        names = [f[0] for f in r["fields"]]
        got = {}
        for i, a in enumerate(call.args):
            got[names[i] if i < len(names) else f"#{i}"] = a
        # a keyword argument is named after the constructor PARAMETER of the field (pydantic: the alias)
        field_of_param = {v: k for k, v in (r.get("param_of") or {}).items()}
        for k in call.keywords:
            if k.arg is not None and k.arg not in field_of_param and k.arg in names and (r.get("param_of") or {}).get(k.arg, k.arg) != k.arg:
                res.add(Finding("C17", "KIND.converter-field", MCP, "ModelCoercerProvider", f"{ident}: keyword {k.arg}",
                                f"converter {ident}: `{norm(call)[:160]}` passes the field `{k.arg}` under its FIELD ID; the parameter "
                                f"of the {r['dst_kind']} constructor is `{r['param_of'][k.arg]}`: the value is dropped or refused while the "
                                "twins of the other kinds receive it", 0))
            got[field_of_param.get(k.arg, k.arg) if k.arg is not None else "**"] = k.value
        for nm_ in r.get("skipped", []):
            if nm_ in got:
                res.add(Finding("C17", "KIND.converter-field", MCP, "ModelCoercerProvider", f"{ident}: {nm_} <- {norm(got[nm_])[:40]}",
                                f"converter {ident}: the unlinked optional field `{nm_}` must be left to its default but receives "
                                f"`{norm(got[nm_])[:60]}` (`{norm(call)[:160]}`): the arguments after a skipped parameter are shifted", 0))
        src_names = [f[0] for f in r["fields"] if f[0] not in r.get("skipped", [])]
        for nm_ in names:
            if nm_ in r.get("skipped", []):
                continue
            e = got.get(nm_)
            inner = e
            if isinstance(e, ast.Call) and len(e.args) == 2 and norm(e.args[1]) == "ctx":
                inner = e.args[0]
            ok = (isinstance(inner, ast.Attribute) and norm(inner.value) == "data" and inner.attr == nm_) or (
                isinstance(inner, ast.Subscript) and norm(inner.value) == "data" and isinstance(inner.slice, ast.Constant)
                and (inner.slice.value == nm_ or (r["src_kind"] == "namedtuple" and inner.slice.value == src_names.index(nm_))))
            if not ok:
                res.add(Finding("C17", "KIND.converter-field", MCP, "ModelCoercerProvider", f"{ident}: {nm_} <- {norm(e)[:40] if e is not None else None}",
                                f"converter {ident}: destination field `{nm_}` is not copied from the same-named source field "
                                f"(`{norm(call)[:160]}`)", 0))
        extra = set(got) - set(names)
        if extra:
            res.add(Finding("C17", "KIND.converter-field", MCP, "ModelCoercerProvider", f"{ident}: extra {sorted(extra)}",
                            f"converter {ident} passes unexpected arguments {sorted(extra)}", 0))
    res.count("KIND.converters", m, 50)


# ================================================================================================ C14: soundness family (tier G)
def c14_checks(repo: Repo, tier: str, res: CheckResult, seed: int) -> None:
    recs = [r for r in run_child(repo, tier, seed, "soundness") if r.get("kind") == "soundness"]
    CPR = "adaptix/_internal/conversion/coercer_provider.py"
    n = 0
    for r in recs:
        if r.get("harness_error"):
            raise AnalysisError(f"soundness harness failed on {r['src']} -> {r['dst']}: {r['harness_error']}")
        n += 1
        ident = f"{r['src']} -> {r['dst']}"
        res.evaluated("G:soundness:" + ident, True)
        refused = r["error"] is not None
        want = r["want"]
        if refused and r["error"] not in ("ProviderNotFoundError", "AggregateCannotProvide", "CannotProvide", "ExceptionGroup"):
            res.add(Finding("C14", "SOUND.refusal-is-a-crash", CPR, "coercer providers", f"{ident}: {r['error']}",
                            f"asking for a converter {r['src']} -> {r['dst']} raises {r['error']}: a pair that cannot be coerced has to be "
                            "REFUSED (ProviderNotFoundError with the reason), an internal error tells the user nothing about the field", 0))
            continue
        if want == "refuse":
            if not refused:
                arg = ""
                try:
                    fn, _ = _parse_hook_source(r["source"])
                    arg = norm(fn.body[0].value)[:120]
                except Exception:  # noqa: BLE001
                    pass
                res.add(Finding("C14", "SOUND.unsound-pair-accepted", CPR, "coercer providers", ident,
                                f"a converter for a field of type {r['src']} into a field of type {r['dst']} is produced (`{arg}`): "
                                "values of the source type are not values of the destination type and nothing converts them", 0))
            continue
        if refused:
            res.add(Finding("C14", "SOUND.sound-pair-refused", CPR, "coercer providers", ident,
                            f"no converter for {r['src']} -> {r['dst']} although every source value is a destination value "
                            f"(or is converted element-wise): {r['error']}", 0))
            continue
        fn, _ = _parse_hook_source(r["source"])
        call = fn.body[0].value
        arg = call.args[0] if call.args else (call.keywords[0].value if call.keywords else None)
        bare = isinstance(arg, ast.Attribute) and norm(arg) == "data.x"
        if want == "as-is" and not bare:
            res.add(Finding("C14", "SOUND.as-is-expected", CPR, "coercer providers", f"{ident}: {norm(arg)[:60]}",
                            f"{r['src']} -> {r['dst']} needs no conversion but the value goes through `{norm(arg)[:80]}`", 0))
        if want == "rebuilt" and bare:
            res.add(Finding("C14", "SOUND.container-handed-over", CPR, "coercer providers", ident,
                            f"{r['src']} -> {r['dst']}: the source container is handed over unchanged although its class need not "
                            "be the destination's (a MappingProxyType is not a dict, a tuple is not a list)", 0))
    res.count("SOUND.type-pairs", n, 40)



# ================================================================================================ C18: enum / flag tables (tier G)
def _et_dicts(cells: dict) -> List[List[list]]:
    return [v["d"] for v in cells.values() if isinstance(v, dict) and "d" in v]


def _et_key(enc: dict) -> str:
    """a comparable spelling of an encoded value: members by Class.name, everything else type-exact"""
    if "m" in enc:
        return "member:" + enc["m"]
    for k in ("s", "i", "b"):
        if k in enc:
            return f"{k}:{enc[k]!r}"
    if "none" in enc:
        return "none"
    return "other:" + json.dumps(enc, sort_keys=True)


def c18_checks(repo: Repo, tier: str, res: CheckResult, seed: int) -> None:
    """The tables captured by the closures the five enum / flag factories hand out (read from the closure cells after the
    creation stage; nothing is called) against the documented representation: the member -> name table of the dumper, the
    name -> member table of the loader (its exact inverse), the cases the flag list codec knows, the exact value tables, the
    flag mask and the documented refusals."""
    EPF = "adaptix/_internal/morphing/enum_provider.py"
    recs = [r for r in run_child(repo, tier, seed, "enumtables") if r.get("kind") == "enumtable"]
    n = 0
    n_tables = 0

    def report(rule: str, qual: str, construct: str, msg: str) -> None:
        res.add(Finding("C18", rule, EPF, qual, construct, msg, 0))

    for r in recs:
        n += 1
        cls = r["cls"]
        members = r["members"]
        canon = [m for m in members if m[0] == m[1]]
        ident = f"{r['provider']}:{cls}:{r['cfg']}" + (f":compound={r['allow_compound']}" if "allow_compound" in r else "")
        res.evaluated("G:enumtable:" + ident, True)
        oracle = r.get("oracle") or {}

        def expected(name: str) -> str:
            if name in oracle.get("by_member", {}):
                return oracle["by_member"][name]
            if name in oracle.get("by_name", {}):
                return oracle["by_name"][name]
            return _style_oracle(name, oracle.get("style"))

        sides = {k: r.get(k) for k in ("loader", "dumper") if k in r}
        for side, out in sides.items():
            if isinstance(out, dict) and out.get("harness_error"):
                raise AnalysisError(f"enum table harness cannot call the {side} factory of {ident} (signature moved?): {out['harness_error']}")
        if r["provider"] == "value":
            for side, out in sides.items():
                qual = f"EnumValueProvider._make_{side}"
                if "error" in out:
                    report("TABLE.creation-failed", qual, f"{ident}: {out['error'][:80]}",
                           f"creating the by-value {side} of {cls} fails: {out['error']}")
                elif out.get("is_value_codec"):
                    n_tables += 1
                    report("TABLE.value-codec-handed-out-bare", qual, f"{ident}: the {side} of the value type itself",
                           f"enum_by_value({cls}, tp={r['cfg']}): the {side} handed out IS the {side} of the value type: the dumper then "
                           "receives the member instead of member.value (the builtin int / str dumpers return their argument as it is, "
                           "so dump(m) is the member itself, which the strict loader of the value type rejects), the loader returns the "
                           "plain value instead of the member")
                else:
                    n_tables += 1
            continue
        if r["provider"] == "flag_exact":
            ints = [m[3] for m in members]
            mask = 0
            for v in ints:
                mask |= v
            must_refuse = mask < 0 or mask != 2 ** mask.bit_length() - 1
            lo = sides["loader"]
            if "error" in lo:
                report("TABLE.creation-failed", "FlagByExactValueProvider._make_loader", f"{cls}: {lo['error'][:80]}",
                       f"creating the exact-value loader of flag {cls} {[(m[0], m[3]) for m in members]} raises {lo['error']}")
            elif must_refuse != ("refused" in lo):
                report("TABLE.flag-refusal", "FlagByExactValueProvider._make_loader", f"{cls}: refused={'refused' in lo}",
                       f"flag {cls} with values {[m[3] for m in members]} (mask {mask}): the documentation excludes exactly the flags "
                       f"with negative values or skipped bits; creation {'was refused' if 'refused' in lo else 'succeeded'}")
            elif "fn" in lo and "cells" in lo["fn"]:
                int_cells = [v["i"] for v in lo["fn"]["cells"].values() if isinstance(v, dict) and "i" in v]
                if int_cells:
                    n_tables += 1
                    if mask not in int_cells:
                        report("TABLE.flag-mask", "FlagByExactValueProvider._make_loader", f"{cls}: {sorted(int_cells)} vs {mask}",
                               f"the loader of flag {cls} captured the bound(s) {sorted(int_cells)}; the union of all members is {mask}: "
                               "values up to the mask are representations of member combinations")
            continue
        for side, out in sides.items():
            qual = {"name": "EnumNameProvider", "exact": "EnumExactValueProvider", "flag_list": "FlagByListProvider"}[r["provider"]] \
                + "._make_" + side
            if "error" in out or "refused" in out:
                report("TABLE.creation-failed", qual, f"{ident}: {(out.get('error') or out.get('refused'))[:80]}",
                       f"creating the {side} for {ident} (members {[m[0] for m in members]}) fails: "
                       f"{out.get('error') or out.get('refused')}; the documentation does not exclude this class")
                continue
            cells = out["fn"].get("cells")
            if cells is None:
                continue
            dicts = _et_dicts(cells)
            if r["provider"] in ("name", "flag_list"):
                if r["provider"] == "name":
                    cases = canon
                elif r["allow_compound"]:
                    cases = canon
                else:
                    cases = [m for m in canon if m[3] is not None and m[3] > 0 and m[3] & (m[3] - 1) == 0]
                want = {f"member:{cls}.{m[0]}": expected(m[0]) for m in cases}
                if len(set(want.values())) != len(want):
                    continue        # colliding names: the known finding of tier S, not decided here
                if side == "dumper":
                    tabs = [d for d in dicts if d and all("m" in k and "s" in v for k, v in d)]
                    got_list = [{_et_key(k): v["s"] for k, v in d} for d in tabs]
                else:
                    tabs = [d for d in dicts if d and all("s" in k and "m" in v for k, v in d)]
                    got_list = [{_et_key(v): k["s"] for k, v in d} for d in tabs]
                    for d in tabs:
                        if len({k["s"] for k, _ in d}) != len({_et_key(v) for _, v in d}):
                            report("TABLE.loader-not-inverse", qual, ident,
                                   f"{ident}: the loader table maps two names to one member: {[(k['s'], v['m']) for k, v in d]}")
                for got in got_list:
                    n_tables += 1
                    if got != want:
                        diff = sorted(set(got.items()) ^ set(want.items()), key=str)
                        report("TABLE.name-table", qual, f"{ident}: {diff[:4]}",
                               f"{ident}: the {side} captured the table {got}, the documented representation (map entry of the member, "
                               f"else map entry of its name, else the name in the name style; "
                               + ("every member" if r["provider"] == "name" or r.get("allow_compound") else "the single-bit members")
                               + f") is {want}")
                if r["provider"] == "flag_list":
                    zeros = [v for v in cells.values() if isinstance(v, dict) and "m" in v and v.get("cls") == cls]
                    for z in zeros:
                        if z.get("val") != "0":
                            report("TABLE.zero-case", qual, f"{ident}: {z['m']}",
                                   f"{ident}: the flag the {side} starts from is {z['m']} = {z.get('val')}, not the empty flag")
            elif r["provider"] == "exact":
                want_m2v = {f"member:{cls}.{m[0]}": m[2] for m in canon}
                for d in dicts:
                    if side == "dumper" and d and all("m" in k for k, _ in d):
                        n_tables += 1
                        got = {_et_key(k): v.get("r") for k, v in d}
                        if got != want_m2v:
                            report("TABLE.exact-table", qual, f"{ident}: {sorted(set(got.items()) ^ set(want_m2v.items()), key=str)[:4]}",
                                   f"{ident}: the dumper table {got} is not member -> value for every member ({want_m2v})")
                    if side == "loader" and d and all("m" in v for _, v in d):
                        n_tables += 1
                        got = {_et_key(v): k.get("r") for k, v in d}
                        if got != want_m2v or len(d) != len(got):
                            report("TABLE.exact-table", qual, f"{ident}: {sorted(set(got.items()) ^ set(want_m2v.items()), key=str)[:4]}",
                                   f"{ident}: the loader table {[(k.get('r'), v['m']) for k, v in d]} is not value -> member for every member")
    res.count("TABLE.records", n, 80)
    res.count("TABLE.tables-compared", n_tables, 120)

# ================================================================================================ C16: generic models (tier G)
_G_IMPLICIT = {"T": "Any", "U": "Any", "V": "Any", "B": "Book", "C": "Union[str, bytes]", "N": "int", "ItemT": "AuxItem"}
_G_LOADER = {"int": "int_strict_coercion_loader", "str": "str_strict_coercion_loader", "bool": "bool_strict_coercion_loader",
             "float": "float_strict_coercion_loader", "Decimal": "decimal_strict_coercion_loader", "bytes": "bytes_base64_loader",
             "Any": "<lambda>", "Book": "model_loader_Book", "AuxItem": "model_loader_Item"}
_G_DUMPER = {"Decimal": "__str__", "bytes": "bytes_base64_dumper", "Book": "model_dumper_Book", "AuxItem": "model_dumper_Item"}
_G_TOP = {"List": "iter_", "Dict": "dict_", "Optional": "optional", "Union": "union", "list": "iter_", "dict": "dict_"}


def _g_subst(expr: str, pm: Dict[str, object]) -> str:
    if any(isinstance(v, list) for v in pm.values()):
        mt = re.fullmatch(r"(\w+)\[(.*)\]", expr.strip())
        if mt:
            inner = _g_subst_list(_g_split_args(mt.group(2)), pm)
            return f"{mt.group(1)}[{', '.join(inner) if inner else '()'}]"
    return re.sub(r"[A-Za-z_]\w*", lambda mt: pm[mt.group(0)] if isinstance(pm.get(mt.group(0)), str) else mt.group(0), expr)


def _g_split_args(s: str) -> List[str]:
    out, depth, cur = [], 0, ""
    for ch in s:
        if ch == "[":
            depth += 1
        if ch == "]":
            depth -= 1
        if ch == "," and depth == 0:
            out.append(cur.strip())
            cur = ""
        else:
            cur += ch
    if cur.strip():
        out.append(cur.strip())
    return out


def _g_bind(params: List[str], args: List[str]) -> Dict[str, object]:
    """type variable -> argument; a variadic parameter (`*Ts`) takes every argument the others leave (PEP 646)"""
    var = [i for i, p in enumerate(params) if p.startswith("*")]
    if not var:
        return dict(zip(params, args))
    i = var[0]
    after = len(params) - i - 1
    pm: Dict[str, object] = dict(zip(params[:i], args[:i]))
    pm.update(zip(params[i + 1:], args[len(args) - after:] if after else []))
    pm[params[i][1:]] = list(args[i:len(args) - after])
    return pm


def _g_subst_list(args: List[str], pm: Dict[str, object]) -> List[str]:
    out: List[str] = []
    for a in args:
        a = a.strip()
        if a.startswith("*") and isinstance(pm.get(a[1:]), list):
            out += pm[a[1:]]       # the unpacked TypeVarTuple is replaced with the arguments bound to it, in place
        else:
            out.append(_g_subst(a, pm))
    return out


def _g_resolve(classes: Dict[str, Tuple], name: str, args: List[str]) -> Dict[str, str]:
    return {f: alts[0] for f, alts in _g_resolve_alts(classes, name, args).items()}


def _g_resolve_alts(classes: Dict[str, Tuple], name: str, args: List[str]) -> Dict[str, List[str]]:
    """field -> acceptable annotations with every type variable replaced, written from the property statement: bases are resolved
    with the arguments the child passes, the child's own annotation overrides (shadows) an inherited one, a bare generic uses the
    documented implicit parameters. More than one entry only where the hierarchy itself is inconsistent: the class that declares
    the field is reached through several bases that bind its variable differently (D(B[int], C[str]) for a field of the common
    root neither re-annotates) -- the property does not say which binding wins there, so every one is accepted (first listed
    base first)."""
    params, bases, fields = classes[name]
    if params and not args:
        # a bare TypeVarTuple stands for `*tuple[Any, ...]`
        args = ["*Tuple[Any, ...]" if p.startswith("*") else _G_IMPLICIT[p] for p in params]
    pm = _g_bind(params, args)
    out: Dict[str, List[str]] = {}
    mro = _g_mro(classes, name)
    for bname, bargs in reversed(bases):
        sub = _g_resolve_alts(classes, bname, _g_subst_list(bargs, pm))
        bmro = _g_mro(classes, bname)
        for f, alts in sub.items():
            # the annotation of f is the one of the first class of the MRO that declares it; it is bound through the base
            # that reaches that class (diamonds: D(B[int], C[int]) with C overriding a field of the common root)
            definer = next((c for c in mro[1:] if f in classes[c][2]), None)
            if definer is None or definer in bmro:
                out[f] = alts + [a for a in out.get(f, []) if a not in alts]
    for f, t in fields.items():
        out[f] = [_g_subst(t, pm)]
    return out


def _g_mro(classes: Dict[str, Tuple], name: str) -> List[str]:
    """C3 linearisation over the spec"""
    bases = [b for b, _a in classes[name][1]]
    seqs = [_g_mro(classes, b) for b in bases] + [list(bases)]
    out = [name]
    while any(seqs):
        seqs = [s for s in seqs if s]
        for s in seqs:
            cand = s[0]
            if not any(cand in t[1:] for t in seqs):
                break
        else:
            raise AnalysisError(f"generics spec {name}: inconsistent hierarchy")
        out.append(cand)
        seqs = [[x for x in s if x != cand] for s in seqs]
    return out


def _g_pipe(texpr: str) -> str:
    """PEP 604 spelling -> typing spelling: `A | None` is Optional[A], `A | B` is Union[A, B] (top level only)"""
    parts, depth, cur = [], 0, ""
    for ch in texpr:
        if ch == "[":
            depth += 1
        elif ch == "]":
            depth -= 1
        if ch == "|" and depth == 0:
            parts.append(cur.strip())
            cur = ""
        else:
            cur += ch
    parts.append(cur.strip())
    if len(parts) == 1:
        return texpr.strip()
    rest = [p for p in parts if p != "None"]
    if len(rest) == 1 and len(parts) == 2:
        return f"Optional[{rest[0]}]"
    return f"Union[{', '.join(parts)}]"


def _g_leaves(texpr: str, table: Dict[str, str]) -> List[str]:
    texpr = _g_pipe(texpr.strip()).lstrip("*")
    mt = re.fullmatch(r"(\w+)\[(.*)\]", texpr)
    if mt:
        if mt.group(1) == "Annotated":      # Annotated[X, meta]: the type is X
            return _g_leaves(_g_split_args(mt.group(2))[0], table)
        out: List[str] = []
        for a in _g_split_args(mt.group(2)):
            out += _g_leaves(a, table)
        return out
    if texpr == "Book" and table is _G_LOADER:
        return ["model_loader_Book", "str_strict_coercion_loader"]
    if texpr == "AuxItem" and table is _G_LOADER:
        # the Item of the module the TypeVar was made in (title: str), not the homonym of the model's module (n: int)
        return ["model_loader_Item", "str_strict_coercion_loader"]
    return [table[texpr]] if texpr in table else []


def _g_flat(d: dict) -> List[str]:
    out = [d["q"].split(".")[-1]]
    for c in d.get("cells", []):
        out += _g_flat(c)
    return out


def c16_checks(repo: Repo, tier: str, res: CheckResult, seed: int) -> None:
    recs = [r for r in run_child(repo, tier, seed, "generics") if r.get("kind") == "generics"]
    GR = "adaptix/_internal/type_tools/generic_resolver.py"
    n = n_fields = 0
    known_l = set(_G_LOADER.values())
    known_d = set(_G_DUMPER.values())
    for r in recs:
        if r.get("harness_error"):
            raise AnalysisError(f"generics harness failed ({r.get('spec')}, {r.get('query')}): {r['harness_error']}")
        # a member declared `T = field(init=False, ...)` is output-only: the dumper handles it, the loader does not
        out_only = {f for c in r["classes"] for f, t in c[3].items() if "init=False" in t}
        classes = {c[0]: (c[1], [(b[0], b[1]) for b in c[2]], {f: t.split(" = ")[0] for f, t in c[3].items()}) for c in r["classes"]}
        q = r["query"]
        mt = re.fullmatch(r"(\w+)(?:\[(.*)\])?", q)
        cname, args = mt.group(1), _g_split_args(mt.group(2) or "")
        want_alts_all = _g_resolve_alts(classes, cname, args)
        n += 1
        res.evaluated(f"G:generics:{r['spec']}:{q}", True)
        # one retort, both products, both orders: what a retort can build does not depend on what it built before
        seq = r.get("sequential") or {}
        for k, err in sorted(seq.items()):
            what_ = k.split(":")[1]
            if err is not None and r[what_]["error"] is None:
                res.add(Finding("C16", "GENERIC.refused-after-sibling", GR, "GenericResolver", f"{r['spec']}:{q}:{k}",
                                f"{q} ({r['spec']}): a fresh retort builds the {what_}, the retort that was asked for the other direction "
                                f"first ({k.split(':')[0]}) answers {err}: the members of a parametrised base resolved for one shape are "
                                "reused for the other shape (an output-only member is missing / unsubstituted)", 0))
        for what, table, known in (("loader", _G_LOADER, known_l), ("dumper", _G_DUMPER, known_d)):
            want_alts = {f: a for f, a in want_alts_all.items() if not (what == "loader" and f in out_only)}
            want = {f: alts[0] for f, alts in want_alts.items()}
            got = r[what]
            # (the documented error for non-parametrised generics concerns dump(obj) without a type; get_dumper(A) uses the
            # implicit parameters like the loader does)
            if got["error"] is not None:
                res.add(Finding("C16", "GENERIC.refused", GR, "GenericResolver", f"{r['spec']}:{q}:{what}",
                                f"no {what} for {q} ({r['spec']}): {got['error']}", 0))
                continue
            for f, alts in want_alts.items():
                n_fields += 1
                b = got["bindings"].get(f"{what}_{f}")
                flat = _g_flat(b) if b is not None else []
                ok = False
                for alt in reversed(alts):      # the preferred resolution last: it is the one reported
                    texpr = _g_pipe(alt)
                    # pre-order of the closure tree (cells in free-variable order: key_* before value_*), NOT sorted: the position
                    # of an argument matters (Dict[K, List[V]] vs Dict[V, List[K]])
                    got_leaves = [x for x in flat if x in known]
                    exp_leaves = _g_leaves(texpr, table)
                    if "Union[" in texpr:      # the cases of a union are a set (normalisation may reorder them)
                        got_leaves, exp_leaves = sorted(got_leaves), sorted(exp_leaves)
                    if what == "dumper":
                        got_leaves = [x for x in got_leaves if x != "<lambda>"]
                    ok_alt = got_leaves == exp_leaves
                    top_kw = _G_TOP.get(texpr.split("[")[0]) if "[" in texpr else None
                    if ok_alt and top_kw and what == "loader" and not (flat and top_kw in flat[0]):
                        ok_alt = False
                    ok = ok or ok_alt
                if not ok:
                    res.add(Finding("C16", f"GENERIC.{what}-field-type", GR, "GenericResolver",
                                    f"{r['spec']}:{q}.{f}: expected {texpr}",
                                    f"{q} ({r['spec']}): field `{f}` must be {what[:-2]}ed as `{texpr}` (its annotation with the type "
                                    f"variables substituted through the hierarchy {[c[0] for c in r['classes']]}), but the bound "
                                    f"{what} is {flat[:6]} (scalar leaves {got_leaves}, expected {exp_leaves})", 0))
            extra = {k[len(what) + 1:] for k in got["bindings"]} - set(want)
            if extra:
                res.add(Finding("C16", f"GENERIC.{what}-field-type", GR, "GenericResolver", f"{r['spec']}:{q}: unexpected fields {sorted(extra)}",
                                f"{q}: {what} has fields {sorted(extra)} that the hierarchy does not define", 0))
        if len(res.samples) < 8 and n % 5 == 1:
            res.sample({"spec": r["spec"], "query": q, "resolved_fields": want, "verdict": "bound loaders/dumpers agree"})
    res.count("GENERIC.parametrisations", n, 30)
    res.count("GENERIC.fields", n_fields, 100)
