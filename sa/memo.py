"""Hidden memos (cross-cutting; reported by C11): a memo makes the answer to a request depend on what EARLIER requests
stored unless its key determines the stored value.

Two kinds of site are inventoried over the whole package:

A  applications of functools.lru_cache / functools.cache (decorator or call form);
B  check-then-insert memos: a function that stores `C[k] = v` into a container that outlives the call (attribute of
   self / cls, module-level name) AND hands `C[...]` back (a registry that only records is not a memo).

Rules
  MEMO.key-omits-dependency (B)  every parameter the stored value is computed from is part of the key
  MEMO.values-keyed-by-equality (A, B)  the key is compared with == / hash. That is sound for types, strings and requests,
        not for VALUES the user supplies (data, defaults, Literal arguments, enum members): True == 1 == 1.0,
        Decimal('1.0') == Decimal('1.00'), a str/int mixed-in enum member equals its value and the equal-valued member of
        another class.  Decided from the annotation of the parameters that flow into the key: positively value-like
        annotations are flagged unless the key pairs the value with type(...) / id(...) / __class__; parameters whose
        annotation is not recognised are not judged (no alarm).
  MEMO.runtime-function (A)  the memoised callable is a loader / dumper / coercer (a parameter or a closure over data)
"""
from __future__ import annotations

import ast
import re
from typing import Callable, Dict, List, Optional, Set, Tuple

from .core import AnalysisError, CheckResult, Finding, ModuleInfo, Repo, func_params, norm, walk_no_nested

MEMO_WRAPPERS = {"functools.lru_cache", "functools.cache"}
# annotations whose values are compared soundly by == (identity-like or type-exact)
TYPE_LIKE = ("TypeHint", "type", "Type", "BaseNormType", "NormType", "LocStack", "Request", "str", "bytes", "NameStyle",
             "Hashable", "Provider", "Mediator", "KeyPath", "Path", "Callable", "DebugTrail", "bool_flag")
# annotations that denote user-supplied VALUES
VALUE_LIKE = ("Any", "object", "int", "float", "complex", "Decimal", "Fraction", "Enum", "Flag", "EnumT", "FlagT", "Default",
              "DefaultValue", "LiteralArg", "Loader", "Dumper", "Coercer")
# sites whose key adequacy is decided elsewhere, one line of reason each
EXEMPT = {
    ("adaptix/_internal/retort/builtin_mediator.py", "BuiltinMediator.cached_call"):
        "generic call cache: the key is (func, args, kwargs) by construction; what callers pass is decided per call site (C11 KEY.*)",
}


def _annotation_class(ann: Optional[ast.expr]) -> str:
    if ann is None:
        return "unknown"
    names = {n.id for n in ast.walk(ann) if isinstance(n, ast.Name)} | {n.attr for n in ast.walk(ann) if isinstance(n, ast.Attribute)}
    if isinstance(ann, ast.Constant) and isinstance(ann.value, str):
        try:
            return _annotation_class(ast.parse(ann.value, mode="eval").body)
        except SyntaxError:
            return "unknown"
    if names & set(VALUE_LIKE):
        return "value"
    if names & set(TYPE_LIKE) or any(n.endswith("Request") for n in names):
        return "type"
    return "unknown"


def _param_annotations(fn: ast.AST) -> Dict[str, Optional[ast.expr]]:
    if isinstance(fn, ast.Lambda):
        return {a.arg: None for a in fn.args.posonlyargs + fn.args.args + fn.args.kwonlyargs}
    a = fn.args
    out = {x.arg: x.annotation for x in a.posonlyargs + a.args + a.kwonlyargs}
    if a.vararg:
        out[a.vararg.arg] = a.vararg.annotation
    if a.kwarg:
        out[a.kwarg.arg] = a.kwarg.annotation
    return out


def param_deps(fn: ast.AST, e: ast.AST, params: Set[str]) -> Set[str]:
    """parameters the value of `e` depends on (through local assignments and loop targets)"""
    assigns: Dict[str, List[ast.AST]] = {}
    for n in walk_no_nested(fn, include_root=False):
        if isinstance(n, (ast.Assign, ast.AnnAssign)) and getattr(n, "value", None) is not None:
            for t in (n.targets if isinstance(n, ast.Assign) else [n.target]):
                for nm in ast.walk(t):
                    # names that are BOUND by the statement (`c[key] = v` binds neither c nor key)
                    if isinstance(nm, ast.Name) and isinstance(nm.ctx, ast.Store):
                        assigns.setdefault(nm.id, []).append(n.value)
        elif isinstance(n, (ast.For, ast.comprehension)):
            for nm in ast.walk(n.target):
                if isinstance(nm, ast.Name) and isinstance(nm.ctx, ast.Store):
                    assigns.setdefault(nm.id, []).append(n.iter)
    seen: Set[str] = set()
    out: Set[str] = set()
    todo = [e]
    while todo:
        x = todo.pop()
        for nm in ast.walk(x):
            if isinstance(nm, ast.Name):
                if nm.id in params:
                    out.add(nm.id)
                elif nm.id in assigns and nm.id not in seen:
                    seen.add(nm.id)
                    todo += assigns[nm.id]
    return out - {"self", "cls"}


def _locals(fn: ast.AST) -> Set[str]:
    out: Set[str] = set()
    for n in walk_no_nested(fn, include_root=False):
        if isinstance(n, (ast.Assign, ast.AnnAssign, ast.AugAssign)):
            for t in (n.targets if isinstance(n, ast.Assign) else [n.target]):
                if isinstance(t, ast.Name):
                    out.add(t.id)
        elif isinstance(n, (ast.For, ast.comprehension)):
            for nm in ast.walk(n.target):
                if isinstance(nm, ast.Name):
                    out.add(nm.id)
        elif isinstance(n, (ast.With, ast.AsyncWith)):
            for it in n.items:
                if it.optional_vars is not None:
                    for nm in ast.walk(it.optional_vars):
                        if isinstance(nm, ast.Name):
                            out.add(nm.id)
    return out


def memo_stores(fn: ast.FunctionDef):
    """(statement, subscript target, value) of check-then-insert memos in fn (kind B)"""
    if isinstance(fn, ast.Lambda):
        return
    loc = _locals(fn) | set(func_params(fn))
    # a dict handed in by the caller and filled here outlives this call as well (a memo shared by the caller's loop)
    memo_params = {p for p, a in _param_annotations(fn).items()
                   if a is not None and norm(a).split("[")[0].split(".")[-1] in ("dict", "Dict", "MutableMapping", "defaultdict")}
    stores = []
    for n in walk_no_nested(fn, include_root=False):
        if isinstance(n, ast.Assign):
            # `x = C[k] = v` counts as a store of v into C
            for t in n.targets:
                if isinstance(t, ast.Subscript):
                    base = t.value
                    persistent = (isinstance(base, ast.Attribute) and norm(base.value) in ("self", "cls")) or \
                                 (isinstance(base, ast.Name) and base.id not in loc) or \
                                 (isinstance(base, ast.Name) and base.id in memo_params)
                    if persistent:
                        stores.append((n, t, n.value))
    # `return C.setdefault(k, v)` / `x = C.setdefault(k, v)`: check-then-insert and hand-back in one call (an interning pool)
    pooled = []
    for n in walk_no_nested(fn, include_root=False):
        if isinstance(n, (ast.Return, ast.Assign)) and n.value is not None:
            for c in ast.walk(n.value):
                if isinstance(c, ast.Call) and isinstance(c.func, ast.Attribute) and c.func.attr == "setdefault" and len(c.args) == 2:
                    base = c.func.value
                    persistent = (isinstance(base, ast.Attribute) and norm(base.value) in ("self", "cls")) or \
                                 (isinstance(base, ast.Name) and base.id not in loc) or \
                                 (isinstance(base, ast.Name) and base.id in memo_params)
                    if persistent:
                        tgt = ast.Subscript(value=base, slice=c.args[0], ctx=ast.Store())
                        ast.copy_location(tgt, c)
                        pooled.append((n, tgt, c.args[1]))
    for item in pooled:
        yield item
    if not stores:
        return
    # handed back: a return (or an assignment that is returned) reading the same container
    # (a name that is returned, or that is an argument of the returned expression: `return Element(func=coercer)`)
    returned_names = {x.id for r in walk_no_nested(fn, include_root=False)
                      if isinstance(r, ast.Return) and r.value is not None
                      for x in ast.walk(r.value) if isinstance(x, ast.Name)}
    for st, tgt, val in stores:
        c = norm(tgt.value)
        hands_back = False
        for n in walk_no_nested(fn, include_root=False):
            src = None
            if isinstance(n, ast.Return) and n.value is not None:
                src = n.value
            elif isinstance(n, ast.Assign) and any(isinstance(t, ast.Name) and t.id in returned_names for t in n.targets) \
                    and n is not st:
                src = n.value
            if src is None:
                continue
            # the element itself is handed back (a comparison with it -- a registry's conflict test -- is not a hit)
            cands = [src]
            while cands:
                x = cands.pop()
                if isinstance(x, ast.IfExp):
                    cands += [x.body, x.orelse]
                elif isinstance(x, ast.BoolOp):
                    cands += x.values
                elif isinstance(x, ast.NamedExpr):
                    cands.append(x.value)
                elif isinstance(x, ast.Subscript) and norm(x.value) == c and isinstance(x.ctx, ast.Load):
                    hands_back = True
                elif isinstance(x, ast.Call) and isinstance(x.func, ast.Attribute) and x.func.attr in ("get", "setdefault") \
                        and norm(x.func.value) == c:
                    hands_back = True
        if hands_back:
            yield st, tgt, val


def lru_sites(tree: ast.AST, resolve: Callable[[ast.expr], Optional[str]]) -> List[Tuple[ast.AST, ast.AST, str]]:
    """(site, wrapped callable, how) for every application of a memoising wrapper (kind A)"""
    out = []

    def is_wrapper(e: ast.AST) -> bool:
        if isinstance(e, ast.Call):
            return is_wrapper(e.func)
        return isinstance(e, (ast.Name, ast.Attribute)) and resolve(e) in MEMO_WRAPPERS
    for node in ast.walk(tree):
        if isinstance(node, (ast.FunctionDef, ast.AsyncFunctionDef)):
            for d in node.decorator_list:
                if is_wrapper(d):
                    out.append((node, node, "decorator"))
        elif isinstance(node, ast.Call) and node.args and is_wrapper(node.func) and not node.keywords:
            a = node.args[0]
            if isinstance(node.func, ast.Call) or not isinstance(a, ast.Constant):
                out.append((node, a, "call"))
    return out


def _typed_pairing(key: ast.AST) -> bool:
    txt = norm(key)
    return any(tok in txt for tok in ("type(", "id(", ".__class__"))


def check(repo: Repo, res: CheckResult, prop: str, only: Optional[Tuple[str, ...]] = None, floors: bool = True) -> None:
    n_a = n_b = 0
    for m in repo.modules.values():
        if only is not None and not any(o in m.rel for o in only):
            continue
        def resolve(e, m=m):
            r = repo.resolve_expr_static(m, e)
            return r.name if r.kind == "ext" else None
        # ---------------------------------------------------------------- kind A
        for site, wrapped, how in lru_sites(m.tree, resolve):
            n_a += 1
            enc = m.enclosing_function(site)
            where = m.qualname(enc) if enc is not None else "<module>"
            res.evaluated(f"memo:A:{m.rel}:{where}:{norm(wrapped)[:40] if how == 'call' else wrapped.name}", True)
            target: Optional[ast.AST] = None
            runtime = False
            if isinstance(wrapped, (ast.FunctionDef, ast.Lambda)):
                target = wrapped
                runtime = enc is not None and bool(func_params(wrapped)) and func_params(wrapped)[0] in ("data", "value", "obj")
            elif isinstance(wrapped, (ast.Name, ast.Attribute)):
                r = repo.resolve_expr_static(m, wrapped)
                if r.kind == "func" and r.node is not None:
                    target = r.node
                elif isinstance(wrapped, ast.Attribute):
                    # bound method of a module-level instance: _STD_NORMALIZER.normalize
                    base = repo.resolve_expr_static(m, wrapped.value)
                    cls = None
                    if base.kind == "value" and isinstance(base.node, ast.Call):
                        rc = repo.resolve_expr_static(base.module, base.node.func)
                        cls = rc.cls if rc.kind == "class" else None
                    meth = repo.find_method(cls, wrapped.attr) if cls is not None else None
                    if meth is not None:
                        target = meth[1]
                if target is None and enc is not None and r.kind not in ("class", "ext"):
                    runtime = True      # a parameter / free variable: a loader, dumper or coercer handed to the provider
            construct = norm(site)[:100] if how == "call" else f"@memo def {wrapped.name}"
            if runtime:
                res.add(Finding(prop, "MEMO.runtime-function", m.rel, where, construct,
                                f"`{norm(site)[:80]}` memoises a function that processes user data: look-alike data (True / 1 / 1.0, "
                                "Decimal('1.0') / Decimal('1.00')) get the answer stored for whichever came first -- the result of a "
                                "call depends on the calls before it", getattr(site, "lineno", 0)))
                continue
            if target is None:
                continue
            anns = _param_annotations(target)
            valued = [p for p, a in anns.items() if p not in ("self", "cls") and _annotation_class(a) == "value"]
            if valued:
                res.add(Finding(prop, "MEMO.values-keyed-by-equality", m.rel, where, construct,
                                f"`{norm(site)[:80]}` memoises `{getattr(target, 'name', 'lambda')}` whose parameter(s) {valued} are user-supplied "
                                "values: the cache compares them with == / hash (typed=True only looks at the outermost object), so "
                                "(1, 0), (True, False) and (1.0, 0.0) share an entry and the later request gets the earlier answer",
                                getattr(site, "lineno", 0)))
        # ---------------------------------------------------------------- kind B
        for fn in [x for x in ast.walk(m.tree) if isinstance(x, ast.FunctionDef)]:
            params = set(func_params(fn))
            anns = _param_annotations(fn)
            for st, tgt, val in memo_stores(fn):
                n_b += 1
                q = m.qualname(fn)
                res.evaluated(f"memo:B:{m.rel}:{q}:{norm(tgt.value)}", True)
                exempt = (m.rel, q) in EXEMPT      # (exempt from the per-parameter rules, not from the digest rule)
                deps = param_deps(fn, val, params)
                keys = param_deps(fn, tgt.slice, params)
                missing = deps - keys
                # the key is a DIGEST of what the value is computed from (hash / repr / str / len / id of it): different requests
                # with the same digest share the entry (hash(-1) == hash(-2), classes with one repr, recycled ids)
                kexprs = [tgt.slice] + [a for nm in ast.walk(tgt.slice) if isinstance(nm, ast.Name) for a in _assigned_values(fn, nm.id)]
                digests = [c for e in kexprs for c in ast.walk(e) if isinstance(c, ast.Call) and isinstance(c.func, ast.Name)
                           and c.func.id in ("hash", "repr", "str", "len", "id") and c.args
                           and any(isinstance(x, ast.Name) and (x.id in params or x.id in deps) for x in ast.walk(c))]
                if digests:
                    res.add(Finding(prop, "MEMO.key-is-a-digest", m.rel, q, norm(st)[:100],
                                    f"`{norm(tgt)}`: the key is `{norm(digests[0])[:60]}`, a digest of what the value is computed from, not the "
                                    "objects themselves: two different requests with the same digest (hash(-1) == hash(-2); two classes "
                                    "with one repr) share the entry and the later one gets the answer of the earlier", st.lineno))
                    continue
                # an interning pool: `C.setdefault(k, k)` hands back an object that is only EQUAL to the one just built. For an
                # untyped collection of values of unknown types equality conflates 0 / False, 1 / True / 1.0, members of mixed-in
                # enums and their plain values: whoever asked first decides what everybody gets
                if norm(val) == norm(tgt.slice) and isinstance(val, ast.Name):
                    built = _assigned_values(fn, val.id)
                    coll = [b for b in built if isinstance(b, ast.Call) and norm(b.func) in ("frozenset", "tuple", "set", "list") and b.args]
                    for b in coll:
                        srcs = [x.id for x in ast.walk(b.args[0]) if isinstance(x, ast.Name) and x.id in params]
                        untyped = [p_ for p_ in srcs if not re.search(r"\[\s*(str|bytes|type|int)\b", norm(anns.get(p_)) if anns.get(p_) is not None else "")]
                        if untyped and not _typed_pairing(b):
                            res.add(Finding(prop, "MEMO.pool-interns-by-equality", m.rel, q, norm(st)[:100],
                                            f"`{norm(st)[:80]}` interns `{norm(b)}`: the pooled object is handed out for every EQUAL collection, "
                                            f"and `{untyped[0]}` holds values of unknown types -- frozenset({{0, 1}}) == frozenset({{False, True}}): "
                                            "what a later request gets (allowed values in an error, a table, a key) was built from the "
                                            "values of whoever asked first, in any retort of the process", st.lineno))
                            break
                if exempt:
                    continue
                if not missing:
                    proj = _projected(fn, val, tgt.slice, params)
                    if proj:
                        res.add(Finding(prop, "MEMO.key-projects-dependency", m.rel, q, norm(st)[:100],
                                        f"`{norm(tgt)}`: the value is computed from {[a for a, _b in proj]} but the key keeps only "
                                        f"{[b for _a, b in proj]}: two requests that agree on that projection and differ elsewhere (two fields "
                                        "of the same type pair with different location-bound recipe entries) share the entry", st.lineno))
                        continue
                if missing:
                    res.add(Finding(prop, "MEMO.key-omits-dependency", m.rel, q, norm(st)[:100],
                                    f"`{norm(tgt)}` memoises a value computed from {sorted(deps)} under a key made of {sorted(keys)} only: "
                                    f"two requests that differ in {sorted(missing)} share the entry, the later one gets the answer of "
                                    "the earlier", st.lineno))
                    continue
                valued = [p for p in keys if _annotation_class(anns.get(p)) == "value"]
                # the key reaches into a model field / linking for the user's default or constant (DefaultValue(False) == DefaultValue(0))
                ktxt = norm(tgt.slice)
                for nm in ast.walk(tgt.slice):
                    if isinstance(nm, ast.Name):
                        for a in _assigned_values(fn, nm.id):
                            ktxt += " " + norm(a)
                if re.search(r"\.(default|constant|placeholder)\b", ktxt):
                    valued.append(re.search(r"[\w.]*\.(default|constant|placeholder)\b", ktxt).group(0))
                if valued and not _typed_pairing(tgt.slice) and not any(
                        _typed_pairing(a) for nm in ast.walk(tgt.slice) if isinstance(nm, ast.Name)
                        for a in _assigned_values(fn, nm.id)):
                    res.add(Finding(prop, "MEMO.values-keyed-by-equality", m.rel, q, norm(st)[:100],
                                    f"`{norm(tgt)}`: the key is built from {valued}, user-supplied values compared with == / hash; "
                                    "equal-but-different values (members of two int/str mixed-in enums with equal values, 1 / True) "
                                    "share the entry, the second one is answered with the first one's table", st.lineno))
    res.count("MEMO.lru-cache-sites", n_a, 1 if floors else 0)
    res.count("MEMO.check-then-insert-sites", n_b, 3 if floors else 0)
    # fixtures: both shapes must keep matching
    fx = ast.parse(
        "from functools import lru_cache\n"
        "class P:\n"
        "    def _make(self, key_loader):\n        key_loader = lru_cache(maxsize=512)(key_loader)\n        return key_loader\n"
        "    def f(self, type_var, tp):\n        if tp not in self._c:\n            self._c[tp] = ev(vars(mods[type_var.__module__]), tp)\n"
        "        return self._c[tp]\n"
        "    def reg(self, name, value):\n        self._constants[name] = value\n")
    cls = fx.body[1]
    a = lru_sites(fx, lambda e: "functools.lru_cache" if norm(e) == "lru_cache" else None)
    b = [(param_deps(cls.body[1], v, {"type_var", "tp"}), param_deps(cls.body[1], t.slice, {"type_var", "tp"}))
         for _s, t, v in memo_stores(cls.body[1])]
    if len(a) != 1 or b != [({"type_var", "tp"}, {"tp"})] or list(memo_stores(cls.body[2])):
        raise AnalysisError("MEMO rule fixtures no longer match")
    res.evaluated("memo:fixtures", True)


def _assigned_values(fn: ast.AST, name: str) -> List[ast.AST]:
    out = []
    for n in walk_no_nested(fn, include_root=False):
        if isinstance(n, ast.Assign) and any(isinstance(t, ast.Name) and t.id == name for t in n.targets):
            out.append(n.value)
    return out


def _chains(fn: ast.AST, e: ast.AST, params: Set[str]) -> Set[str]:
    """maximal attribute chains rooted at a parameter that `e` (through local assignments) reads"""
    assigns: Dict[str, List[ast.AST]] = {}
    for n in walk_no_nested(fn, include_root=False):
        if isinstance(n, ast.Assign):
            for t in n.targets:
                if isinstance(t, ast.Name):
                    assigns.setdefault(t.id, []).append(n.value)
    out: Set[str] = set()
    seen: Set[str] = set()
    todo = [e]
    while todo:
        x = todo.pop()
        inner_ids = set()
        for a in ast.walk(x):
            if isinstance(a, ast.Attribute):
                b = a
                while isinstance(b, ast.Attribute):
                    b = b.value
                if isinstance(b, ast.Name) and b.id in params:
                    # keep only maximal chains: skip if `a` is itself the value of a longer attribute
                    inner_ids.add(id(a.value))
        for a in ast.walk(x):
            if isinstance(a, ast.Attribute) and id(a) not in inner_ids:
                b = a
                while isinstance(b, ast.Attribute):
                    b = b.value
                if isinstance(b, ast.Name) and b.id in params:
                    out.add(norm(a))
            elif isinstance(a, ast.Name):
                if a.id in params and id(a) not in inner_ids:
                    out.add(a.id)
                elif a.id in assigns and a.id not in seen:
                    seen.add(a.id)
                    todo += assigns[a.id]
    return {c for c in out if c.split(".")[0] not in ("self", "cls")}


def _projected(fn: ast.AST, val: ast.AST, key: ast.AST, params: Set[str]) -> List[Tuple[str, str]]:
    """(value chain, key chain) pairs where the key reads a strict projection (longer attribute path) of what the value reads"""
    vch = _chains(fn, val, params)
    kch = _chains(fn, key, params)
    out = []
    for v in sorted(vch):
        root = v.split(".")[0]
        ks = [k for k in kch if k.split(".")[0] == root]
        if not ks:
            continue
        if any(k == v or v.startswith(k + ".") for k in ks):
            continue       # the key holds the same or a larger object
        narrower = [k for k in ks if k.startswith(v + ".")]
        if narrower:
            out.append((v, sorted(narrower)[0]))
    return out
