"""Closure inventory: every loader / dumper closure the builtin providers can hand out.

Roots are found by *reachability*: resolve what `provide_loader` / `provide_dumper` of every provider class may
return (through mediator.cached_call factories, `self._get_x(...)` chains, constructor arguments such as
ScalarProvider(strict_coercion_loader=...)), plus the raw registrations `loader(tp, tp)` of the builtin recipes.
"""
from __future__ import annotations

import ast
from dataclasses import dataclass, field
from typing import Any, Dict, List, Optional, Set, Tuple

from .core import AnalysisError, ClassInfo, ModuleInfo, Repo, func_params, nested_defs, norm, walk_no_nested
from .values import AV, FnCtx, Resolver, ctx_for, strip_elemof


@dataclass
class Closure:
    role: str                       # loader | dumper
    kind: str                       # func | ext
    provider: str                   # provider class name or 'recipe:<retort>'
    fctx: Optional[FnCtx] = None    # for kind == func
    ext: Optional[str] = None       # for kind == ext (stdlib callable used directly as loader/dumper)
    site: Optional[ast.AST] = None  # registration site for ext closures
    site_module: Optional[ModuleInfo] = None
    in_recipe: bool = True          # provider reachable from a builtin recipe (quick tier) vs opt-in (thorough)
    freevars: Dict[str, str] = field(default_factory=dict)  # callee text -> model ('ext:<dotted>') for this instance

    @property
    def name(self) -> str:
        if self.kind == "func":
            assert self.fctx is not None
            suffix = "".join(f"[{k}={v}]" for k, v in sorted(self.freevars.items()))
            return f"{self.fctx.module.rel}:{self.fctx.qual}{suffix}"
        return f"ext:{self.ext}@{self.provider}"


def provider_classes(repo: Repo, method: str) -> List[ClassInfo]:
    out = []
    for ci in repo.all_classes():
        if method in ci.methods or any(method in b.methods for b in repo.mro(ci)):
            # only classes that are providers of the morphing family
            if repo.is_subclass(ci, "Provider") or repo.is_subclass(ci, "LoaderProvider") or repo.is_subclass(ci, "DumperProvider"):
                out.append(ci)
    return out


def recipe_elements(repo: Repo, short_mod: str, cls_name: str) -> List[Tuple[ast.expr, Dict[str, ast.expr]]]:
    """Elements of `<cls>.recipe` with comprehension variables unrolled: (element expr, {var: bound expr})."""
    ci = repo.cls(short_mod, cls_name)
    if "recipe" not in ci.attrs or not isinstance(ci.attrs["recipe"], (ast.List, ast.Tuple)):
        raise AnalysisError(f"anchor vanished: {cls_name}.recipe list display")
    out: List[Tuple[ast.expr, Dict[str, ast.expr]]] = []
    for el in ci.attrs["recipe"].elts:
        if isinstance(el, ast.Starred):
            v = el.value
            gen = None
            if isinstance(v, ast.Call) and v.args and isinstance(v.args[0], ast.GeneratorExp):
                gen = v.args[0]
            elif isinstance(v, (ast.GeneratorExp, ast.ListComp)):
                gen = v
            if gen is not None and len(gen.generators) == 1 and isinstance(gen.generators[0].target, ast.Name) \
                    and isinstance(gen.generators[0].iter, (ast.List, ast.Tuple)):
                var = gen.generators[0].target.id
                for bound in gen.generators[0].iter.elts:
                    elts = gen.elt.elts if isinstance(gen.elt, (ast.Tuple, ast.List)) else [gen.elt]
                    for e in elts:
                        out.append((e, {var: bound}))
                continue
            raise AnalysisError(f"cannot unroll starred recipe element `{norm(el)[:80]}` of {cls_name}")
        out.append((el, {}))
    return out


class Inventory:
    def __init__(self, repo: Repo, resolver: Resolver):
        self.repo = repo
        self.R = resolver
        self.closures: List[Closure] = []
        self.recipe_provider_classes: Set[str] = set()
        self.raw_registrations: List[Closure] = []
        self._build()

    def _recipe_classes(self) -> None:
        """Provider classes instantiated (directly or via facade factories) by the builtin recipes."""
        repo = self.repo
        for short_mod, cls_name in (("morphing/facade/retort", "FilledRetort"),
                                    ("conversion/facade/retort", "FilledConversionRetort")):
            try:
                elems = recipe_elements(repo, short_mod, cls_name)
            except AnalysisError:
                if cls_name == "FilledRetort":
                    raise
                continue
            m = repo.mod(short_mod)
            for el, binding in elems:
                for av in self.R.resolve(el, None, m):
                    self._note_instance(av)
                # raw registrations  loader(pred, func)
                if isinstance(el, ast.Call) and isinstance(el.func, ast.Name) and el.func.id in ("loader", "dumper") \
                        and len(el.args) >= 2:
                    role = el.func.id
                    farg = _subst(el.args[1], binding)
                    if isinstance(farg, ast.Call) and isinstance(farg.func, (ast.Name, ast.Attribute)):
                        # loader(pred, factory(arg, ...)): the closures the factory returns, with its parameters bound
                        fr = repo.resolve_expr_static(m, farg.func)
                        if fr.kind == "func" and fr.module is not None:
                            fctx0 = ctx_for(repo, fr.module, fr.node)
                            params = [a.arg for a in fr.node.args.posonlyargs + fr.node.args.args]
                            fv: Dict[str, str] = {}
                            for pname, a in list(zip(params, farg.args)) + [(k.arg, k.value) for k in farg.keywords]:
                                ar = repo.resolve_expr_static(m, a) if isinstance(a, (ast.Name, ast.Attribute)) else None
                                if ar is not None and ar.kind == "ext" and pname:
                                    fv[pname] = "ext:" + ar.name
                            for av in self.R.returns_of(fctx0):
                                av = strip_elemof(av)
                                if av[0] == "func" and not isinstance(av[1], ast.Lambda):
                                    c = Closure(role, "func", f"recipe:{cls_name}", fctx=ctx_for(repo, av[2], av[1]),
                                                site=el, site_module=m, freevars=fv)
                                    self.closures.append(c)
                                    self.raw_registrations.append(c)
                            continue
                    r = repo.resolve_expr_static(m, farg) if isinstance(farg, (ast.Name, ast.Attribute)) else None
                    if r is not None and r.kind == "ext":
                        c = Closure(role, "ext", f"recipe:{cls_name}", ext=r.name, site=el, site_module=m)
                        self.raw_registrations.append(c)
                        self.closures.append(c)
                    elif r is not None and r.kind == "func":
                        self.closures.append(Closure(role, "func", f"recipe:{cls_name}",
                                                     fctx=ctx_for(repo, r.module, r.node)))

    def _note_instance(self, av: AV, depth: int = 0) -> None:
        if depth > 6:
            return
        if av[0] == "instance":
            ci: ClassInfo = av[1]
            if ci.qual not in self.recipe_provider_classes:
                self.recipe_provider_classes.add(ci.qual)
                for b in self.repo.mro(ci):
                    self.recipe_provider_classes.add(b.qual)
            # constructor arguments that are providers themselves
            call = av[2]
            if call is None:
                return
            for a in list(call.args) + [k.value for k in call.keywords]:
                for sub in self.R.resolve(a, av[3], av[3].module if av[3] else ci.module):
                    self._note_instance(sub, depth + 1)

    def _build(self) -> None:
        repo, R = self.repo, self.R
        self._recipe_classes()
        seen: Set[Tuple[str, int]] = set()
        for role, meth in (("loader", "provide_loader"), ("dumper", "provide_dumper")):
            for ci in provider_classes(repo, meth):
                found = repo.find_method(ci, meth)
                if found is None:
                    continue
                owner, fn = found
                if not fn.body or _is_abstract(fn):
                    continue
                fctx = FnCtx(fn, owner.module, ci, None)
                # resolve with `self` bound to the concrete class ci
                for av in self._returns_for_class(ci, owner, fn):
                    av = strip_elemof(av)
                    if av[0] == "func":
                        node = av[1]
                        if isinstance(node, ast.Lambda):
                            continue
                        key = (role, id(node))
                        if key in seen:
                            continue
                        seen.add(key)
                        cctx = ctx_for(repo, av[2], node)
                        if cctx.outer is None and cctx.cls is not None:
                            # a method returned as a callable (e.g. self._cls.isoformat) – not a closure
                            continue
                        self.closures.append(Closure(role, "func", ci.name, fctx=cctx,
                                                     in_recipe=ci.qual in self.recipe_provider_classes))
                    elif av[0] == "ext":
                        key = (role, hash((ci.name, av[1])))
                        if key in seen:
                            continue
                        seen.add(key)
                        self.closures.append(Closure(role, "ext", ci.name, ext=av[1], site=fn, site_module=owner.module,
                                                     in_recipe=ci.qual in self.recipe_provider_classes))

    def _returns_for_class(self, ci: ClassInfo, owner: ClassInfo, fn: ast.FunctionDef) -> List[AV]:
        return self.R.returns_of(FnCtx(fn, owner.module, ci, None))

    # convention-derived set, for cross validation
    def convention_closures(self, role: str) -> List[Tuple[ModuleInfo, ast.FunctionDef]]:
        """Nested functions in provider modules whose name ends with _loader/_dumper (or contains it) and whose first
        parameter is data/iterable."""
        out = []
        mods = ["morphing/concrete_provider", "morphing/generic_provider", "morphing/iterable_provider",
                "morphing/dict_provider", "morphing/constant_length_tuple_provider", "morphing/enum_provider"]
        for sm in mods:
            m = self.repo.mod(sm)
            for node in ast.walk(m.tree):
                if isinstance(node, ast.FunctionDef) and m.enclosing_class(node) is not None \
                        and m.enclosing_function(node) is not None:
                    ps = func_params(node)
                    if ps and ps[0] in ("data",) and role in node.name:
                        out.append((m, node))
        return out


def _subst(node: ast.expr, binding: Dict[str, ast.expr]) -> ast.expr:
    """Substitute comprehension variables of an unrolled recipe element."""
    if not binding:
        return node
    import copy

    class T(ast.NodeTransformer):
        def visit_Name(self, n: ast.Name):
            if n.id in binding:
                return copy.deepcopy(binding[n.id])
            return n
    out = T().visit(copy.deepcopy(node))
    ast.fix_missing_locations(out)
    return out


def _is_abstract(fn: ast.FunctionDef) -> bool:
    return any(norm(d).endswith("abstractmethod") for d in fn.decorator_list)
