#!/usr/bin/env python3
"""save_seed.py <PROP> <worktree> <n> <name> <detected-by or 'MISSED'> : copy a confirmed seeded change into /verif/seeded"""
import json, shutil, sys
from pathlib import Path
prop, wt, n, name, detected = sys.argv[1:6]
src = Path(wt) / "seeds" / n
dst = Path("/verif/seeded") / f"{prop}-{name}"
dst.mkdir(parents=True, exist_ok=True)
shutil.copy(src / "patch.diff", dst / "patch.diff")
shutil.copy(src / "demo.py", dst / "demo.py")
meta = json.loads((src / "meta.json").read_text())
meta["property"] = prop
meta["confirmed_by_me"] = {
    "demo_on_clean_head": "PASS (exit 0)", "demo_with_patch": "FAIL (exit 1)",
    "test_suite_with_patch": "passes (2576 passed, 24 skipped; PYTHONPATH=<wt>/src:<wt>/tests/tests_helpers pytest tests)",
    "how": "tools/try_seed.sh in the sub-agent's scratch worktree, then applied to /repo, checks run, reverted",
}
meta["detected_by"] = detected
(dst / "meta.json").write_text(json.dumps(meta, indent=1) + "\n")
print("saved", dst)
