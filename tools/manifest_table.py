"""Table of claimed checks (edited by hand as checks are built)."""
TB = ("Python ast parser; name resolution of sa/values.py; for C04/C18 the builtin effect table sa/exc_model.py and "
      "the data universe of DESIGN.md section 0")

CHECKS = {
    "C04": dict(
        category="other",
        technique="exception-escape analysis (abstract interpretation) with builtin effect table; collect-handler rule",
        text="Decides, for every builtin loader closure (all debug_trail x strict_coercion variants, found by "
             "reachability from provide_loader) and every raw loader registration of the builtin recipe, that the set "
             "of exception classes that can escape is within the LoadError family, for all inputs of the stated data "
             "universe at once; and that LoadError groups are built only from errors caught as LoadError. A clause of "
             "the property (escape classes under a trusted effect table), not the full behaviour.",
        level_note="Trusted: " + TB + ". User-supplied code (custom _missing_, constructors, validators) and resource "
                   "exhaustion are outside the clause.",
        design_ref="DESIGN.md 2.1, 3/C04, Appendix A",
    ),
    "C19": dict(
        category="other",
        technique="provenance (taint) analysis of all interpolation holes and ast identifier sites of the code "
                  "generators; identifier freshness; sanitizer/validator audit",
        text="Decides, for every interpolation hole of every code template of the five generator modules and every "
             "identifier handed to the ast builders, that no external key, user-chosen name or default repr reaches "
             "generated source except under !r, behind a fixed prefix after identifier validation, keyword-guarded, "
             "or through the sanitizer; and that template-owned identifiers cannot be captured by field-derived ones. "
             "Universal over strings because it is decided per interpolation site, not per input.",
        level_note="Trusted: " + TB + "; inspect.Parameter rejects keywords/non-identifiers; repr() of str/int/tuple "
                   "is a literal. Behaviour 'according to C03/C13' is those properties.",
        design_ref="DESIGN.md 3/C19",
    ),
    "C09": dict(
        category="other",
        technique="typestate (flush/reset pairing) over enumerated paths, exactly-once call counting per path, symbolic "
                  "evaluation of the chain composition, concatenation-order rules; recursion-resolver rules (occurrence decided by whole location and by the resolver's own record), stateless-router rule, delegation re-send rule",
        text="Decides structural necessary conditions of first-match resolution: on every path of the router builder "
             "an emitted accumulator is reset; both routers scan from the offset and return index+1; the bus threads "
             "that offset into the next search and into the mediator, continues only on non-terminal CannotProvide and "
             "returns the first response; the chaining wrapper consults the wrapped handler and the next provider "
             "exactly once per path and composes FIRST/LAST in the documented direction; extend() prepends; the full "
             "recipe is head, instance, class MRO, tail; a retort in a recipe answers from its own recipe.",
        level_note="Trusted: Python ast. Not decided: equivalence of the optimised router with the linear scan for "
                   "every provider arrangement (execution-level); predicate semantics (C10).",
        design_ref="DESIGN.md 3/C09",
    ),
}

ALL = [f"C{n:02d}" for n in range(1, 21)]
NA = {"C01", "C16", "C17"}


def pending():
    return {p: "check under construction in this round; not claimed until it exists"
            for p in ALL if p not in CHECKS and p not in NA}


CHECKS["C15"] = dict(
    category="other",
    technique="typed-equality taint analysis over the normaliser; construction-order, eq/hash-consistency and "
              "def-use pipeline rules",
    text="Decides four structural necessary conditions of canonical normal forms: Literal arguments (0 == False) are "
         "never operands of untyped ==/hash container operations anywhere they flow inside normalize_type.py; union and "
         "literal normal forms always order their arguments and nothing rewrites them; __hash__ of every norm type "
         "reads only what __eq__ compares and __eq__ answers for its own class family; union normalisation runs "
         "unfold, dedup, literal merge, single-member collapse in that order.",
    level_note="Trusted: Python ast; typing compares Literal args with their types. Idempotence, implicit parameters "
               "and loader equivalence for equivalent hints are not decided.",
    design_ref="DESIGN.md 2.2, 3/C15",
)

CHECKS["C11"] = dict(
    category="other",
    technique="cache-key soundness (bound-method factories, typed-equality taint, wrapper audit), clone discipline, "
              "post-construction write inventory, facade cache key completeness",
    text="Decides that the only channels through which one facade call could influence a later one are closed: every "
         "cached factory is a bound provider method without access to request/mediator and keyed by type-exact "
         "arguments; retorts, providers and mediators are never modified after construction except by inserts into "
         "caches that _calculate_derived recreates for every clone; clone blocks touch only the clone; facade caches "
         "are keyed by every parameter the maker consumes. A structural necessary-and-sufficient condition for history "
         "independence of the library's own state, not a statement about user-supplied stateful providers.",
    level_note="Trusted: Python ast; STORE_EXCEPTIONS table (2 named symbols with reasons); typing's equality of hints "
               "for the process-wide lru_cache of normalize_type.",
    design_ref="DESIGN.md 3/C11",
)

CHECKS["C14"] = dict(
    category="other",
    technique="path-condition analysis of as-is returns; element-coercer obligations; handler path rule for unlinked "
              "fields; tier G soundness family (type pairs compiled through the real ConversionRetort, accepted / refused against an independent table); hidden-memo family over conversion/ (key vs dependencies)",
    text="Decides, for every path of every builtin coercer provider that returns the as-is coercer, that the path "
         "condition is one of the documented justifications over FULL normalised types (equality, subset/membership, "
         "destination Any, non-generic subclass, as-is inner coercer); that structural coercers request a mandatory "
         "coercer per converted type argument, apply it in the returned closure and guard the arity of a union before "
         "picking one member; that no path out of the unlinked-field handler skips a field unless the policy allows it "
         "for a non-required field, and the builtin recipe forbids by default.",
    level_note="Trusted: Python ast. User supplied coercers are outside the property. Decides the core clause "
               "(no unsound as-is / skip decision in the providers), not the runtime types of converted objects.",
    design_ref="DESIGN.md 3/C14",
)

CHECKS["C18"] = dict(
    category="other",
    technique="partial-function guard analysis of enum/flag factories; mapping-inversion and loader/dumper pairing "
              "rules; flag mask validation rules; table stage (tier G): the factories of the five providers are run for "
              "enumerated enum / flag classes and options, the tables captured by the handed-out closures are read from "
              "their cells (nothing is called) and compared with an independent oracle of the documented representation",
    text="Decides creation totality (no partial stdlib function is applied to an unguarded member value inside the "
         "factories, so zero-valued flag members cannot break loader/dumper creation), that the loading table is the "
         "exact inversion of the dumping table over the same cases for every provider using a mapping generator, that "
         "the exact-value flag loader exists only for non-negative contiguous masks and checks exact ints within "
         "[0, mask], and that the exact-value enum loader rejects members themselves. On the enumerated classes of the "
         "table stage it also decides that the captured member->name and name->member tables are the documented names "
         "and mutually inverse over the documented cases, that the exact-value tables hold every member, that the flag "
         "mask is the union of all members and that creation succeeds except for the documented exclusions. Necessary "
         "structural conditions of the bijection plus the tables on concrete classes; the flag-list dumper's cover "
         "algorithm is decided by rule only, never executed.",
    level_note="Trusted: Python ast. Assumes enum classes have a member. Exception escape of the loader closures is "
               "decided under C04.",
    design_ref="DESIGN.md 3/C18, 8.5 (C18 table stage)",
)

CHECKS["C06"] = dict(
    category="other",
    technique="sibling cross-check: abstract evaluation of the mode dispatch + acceptance signatures by abstract "
              "interpretation; collect-handler rule; (tier G) comparison of emitted programs",
    text="Decides that the DISABLE, FIRST and ALL variants of every container/union loader and dumper closure have the "
         "same acceptance signature (operations probing the raw datum, type tests, rejecting LoadError classes, element "
         "applications, result builder) for each strictness, i.e. the three textually separate code paths accept and "
         "reject the same data with the same error classes; and that ALL-mode collection keeps unexpected errors "
         "unexpected. Decided for all inputs at once because it compares the closures, not their runs.",
    level_note="Trusted: Python ast, the abstract interpreter sa/esc.py, canonicalisation table of equivalent probes "
               "(map/iter/tuple). Equality of returned values beyond the identity of the building expression is not decided.",
    design_ref="DESIGN.md 2.3, 3/C06",
)
CHECKS["C07"] = dict(
    category="other",
    technique="monotone-flag-use analysis; strict = lax + reject-only guards (signature inclusion); fixed-point rule "
              "for scalar loader pairs",
    text="Decides that the strict flag is used monotonically (key argument, positive reject-only guard, sibling "
         "selection), that every strict container closure is its lax sibling plus reject-only guards, that every "
         "accepting path of a strict scalar loader is exact-type guarded and returns what the lax constructor returns "
         "for that type, and that the documented strict guards (str/Mapping exclusion, typed Literal membership) exist.",
    level_note="Trusted: Python ast, sa/esc.py, idempotent-constructor table. Overlapping union cases are excluded by "
               "the property itself.",
    design_ref="DESIGN.md 3/C07",
)

CHECKS["C05"] = dict(
    category="other",
    technique="trail/collect pairing and counter path rules over enumerated paths; mode presence rule; facade wrapper "
              "rule; dataclass-field-order vs positional-construction rule for LoadError.input_value; on compiler output (tier G): trail audit of emitted loaders, control-dependence rule (no field loader under a condition on collected errors), forbid-check and escape audits shared with C03 / C04",
    text="Decides the structural part of error localisation for every container closure: each element application is "
         "protected by handlers that annotate THAT element's position (counter incremented exactly once on every "
         "continuing path, dict keys marked with ItemKey), ALL mode collects every caught error exactly once, never "
         "leaves the loop early and raises whenever something was collected, FIRST mode annotates and re-raises, "
         "DISABLE closures never touch trails, the facade renders once, and every LoadError construction binds the "
         "datum to input_value. Thorough tier adds the crown-path trails of emitted model loaders.",
    level_note="Trusted: Python ast, mode dispatch evaluator. That following the trail reaches the value needs an "
               "input and is not decided.",
    design_ref="DESIGN.md 3/C05",
)

TBG = ("Python ast; the child process sa/gen_child.py runs ONLY the repository's generators (produce_code, literal "
       "renderers) on plain-data shapes/crowns -- emitted closures are never compiled or called; family bounds in "
       "sa/gen_child.py")
CHECKS["C03"] = dict(
    category="translation_validation",
    technique="def-use analysis of generated loader/dumper sources against the input crown (translation validation)",
    text="For every program the model generators emit for the enumerated family (shape x crown x extra policy x extra "
         "move x debug_trail x strict_coercion) the emitted text is audited against the crown handed to the generator: "
         "read path = write path = crown path per field, key-set constants, per-node extra-policy code, list length "
         "checks, placeholders, sieve conditions, extras delivery, unconditional unknown-key check. Second stage: the "
         "whole compilation pipeline (name_mapping facade, overlay merge of several providers, key generation, map "
         "lookup, skip/only, as_list, validation, crown building, code generation) is driven through a real Retort with "
         "a CodeGenAccumulator on enumerated name_mapping configurations and every emitted loader/dumper must read/write "
         "each field at the path an independent oracle derives from the documented rules (and invalid layouts must be "
         "refused). Each program is decided for all its inputs at once; the families are finite and enumerated.",
    level_note="Trusted: " + TBG + "; the layout oracle (_layout_oracle in sa/genprog.py) written from the documentation. "
               "Two genuine defects are recorded as known findings (structural key in collected extras; shallow merge "
               "of extras in the dumper); as_list + extra_out was repaired (fix commit).",
    design_ref="DESIGN.md 3/C03",
)
CHECKS["C08"] = dict(
    category="translation_validation",
    technique="typed-equality taint on literal inlining; translation validation of rendered literals and of the "
              "constructor call / default handling of generated loaders against the shape; sibling decision tables",
    text="Decides that literal inlining is type-exact (taint rule + rendered text of a value family re-evaluated by a "
         "closed evaluator and compared by exact type and value), and for every emitted loader program that the real "
         "constructor is called exactly once at the end with positional/keyword/** arguments as parameter kinds and "
         "skipped parameters prescribe, packed fields only via **packed_fields, factory defaults called in the body, "
         "captured defaults bound to the very object; loader generator and model coercer share one decision table.",
    level_note="Trusted: " + TBG + "; closed literal evaluator in sa/genprog.py.",
    design_ref="DESIGN.md 2.2, 3/C08",
)
CHECKS["C20"] = dict(
    category="other",
    technique="argument-mutation and container-freshness (hoisting) analysis of closures, plus the same rules on "
              "generated sources",
    text="Decides for every loader, dumper and coercer closure that nothing reachable from the argument is stored into, "
         "deleted, augmented or handed a mutating method (aliases and loop elements tracked), that no closure returns or "
         "fills a container its factory created once, and that container closures never return their argument; the "
         "emitted model programs obey the same rules (extras copied item-wise into a dict created in the body).",
    level_note="Trusted: Python ast, mutator-method table. Values documented as passed as-is may be shared. The IO[bytes] "
               "dumper's seek/read is a recorded known finding.",
    design_ref="DESIGN.md 3/C20",
)

CHECKS["C10"] = dict(
    category="other",
    technique="component-wise structural rules over the predicate algebra (operator table as canonical terms, reducer "
              "identification, re-iterability of stored operands, comparison/slice shape of each checker)",
    text="Decides the structural half of the documented predicate laws: each operator method builds the combinator the "
         "documentation names with operands in source order; the reducers are any/all/xor-fold over every operand on the "
         "same request; no combinator stores a one-shot iterable; identifier strings compare exactly and other strings "
         "by full regex match; abstract classes and protocols use the subclass test (argument order checked) and other "
         "classes origin equality; P[...] building, attribute/item equivalence, + order; the tail matcher's length guard, "
         "pairing, slice and conjunction; bound() conjoins. Pointwise truth on concrete stacks is not evaluated.",
    level_note="Trusted: Python ast; normalize_type / is_subclass_soft / isabstract / is_protocol meaning.",
    design_ref="DESIGN.md 3/C10",
)

CHECKS["C13"] = dict(
    category="other",
    technique="translation validation of emitted converters against an independent linking oracle (tier G: the converter "
              "compilation pipeline is driven on enumerated model pairs / recipes, the emitted text is audited, no converter "
              "runs), plan-to-expression isomorphism of the broaching generator, converter-template audit, shape rules over "
              "the linking and planning functions for localisation",
    text="Decides, for every enumerated configuration (source/destination dataclass models with a nested model, 0-3 extra "
         "parameters, recipes of link / regex link / typed link / from_param / link_constant value and factory / "
         "link_function / allow_unlinked_optional), that the generated model coercers build the destination field-wise from "
         "exactly the sources the documented linking rules fix, that unlinkable configurations are refused, that every "
         "enumerated broaching plan is rendered to an isomorphic expression with type-exact constants, and that the converter "
         "template keeps the requested signature, context passing and stub wrapping. Universal over source values (the "
         "emitted expression is audited, not evaluated); bounded over configurations (enumerated family).",
    level_note="Trusted: Python ast; dataclass shape introspection; the oracle in sa/genprog.py (_link_oracle) written from "
               "the property statement. Coercion of values (C14) and other model kinds (C17) are outside.",
    design_ref="DESIGN.md 3/C13",
)

CHECKS["C12"] = dict(
    category="other",
    technique="ownership / effect analysis of shared-state writes (lock or atomic idempotent publish classification), "
              "thread-confinement (escape) check of stateful helper classes, two-phase-object equality rule, lock-body "
              "call rule; builtin-dict rule for retort-lifetime tables (dict subclasses with a Python __setitem__), self-consuming callable rule (call path stores an attribute it reads)",
    text="Decides structural necessary conditions of safe concurrent first use: every write to retort-, provider-, class- "
         "or module-lifetime state is under a lock or is a single item assignment of a finished local into an insert-only "
         "per-retort cache (no read-modify-write, no removal, no multi-cache update); classes that change after "
         "construction are instantiated per request and never escape into shared state (request buses and recursion "
         "resolvers are built by _create_mediator on every call); an object bound in two phases (the recursion stub) "
         "compares by identity, so the shared call cache cannot hand an in-flight request's closure to another thread; "
         "critical sections make no calls. Interleavings are not enumerated.",
    level_note="Trusted: Python ast; CPython GIL atomicity of one dict operation. The value-equality stub defect was "
               "confirmed with a deterministic two-thread schedule and repaired (fix commit cf908c9).",
    design_ref="DESIGN.md 3/C12",
)

CHECKS["C02"] = dict(
    category="other",
    technique="documentation-to-code agreement (parsed rst table vs dominating exact-type guards of the strict loaders and "
              "registered dumpers), sibling-table equality, path rules over the union/optional/literal/dict closures, "
              "kind-agreement (typed vs plain membership) rule",
    text="Decides structural necessary conditions of the documented per-type rules: the exact-type set accepted by each of "
         "the seven strict scalar loaders equals the documentation's 'Allowed strict origins' and the dumper has the "
         "documented outer form; abstract collections map to the documented minimal concrete types identically for loaders "
         "and coercers; each union loader variant returns the first accepting case's result, skips a case only on LoadError "
         "and fails only after all cases; Optional passes None through; union dumping dispatches on the runtime class "
         "through its MRO and a Literal case wins only by type-exact equality; Literal enum/bytes wrappers compare with "
         "plain cases; iterable/dict outer forms; NewType/Annotated/alias providers delegate to the wrapped type.",
    level_note="Trusted: Python ast, the rst table layout, CPython constructors. Two genuine defects were found by the "
               "kind-agreement rule and repaired (fix commits eb74501, 1439840). The documented 'enum loaders first' order "
               "differs from the code only for data two Literal cases accept (documented as undefined): no rule.",
    design_ref="DESIGN.md 3/C02",
)

NA.discard("C17")
CHECKS["C17"] = dict(
    category="other",
    technique="sibling cross-check of compiler output across model kinds (tier G: the compilation pipeline is driven for the "
              "same logical model declared as dataclass / NamedTuple / TypedDict / attrs / pydantic; emitted loaders and "
              "dumpers are reduced to kind-independent fingerprints by def-use audit and compared), converter pair audit, "
              "layering (who-may-import) rule, introspector list rule; codec-memo key audit, optional-output-field and optional-first-key audits of emitted programs shared with C11 / C03 / C04",
    text="Decides, for the enumerated logical models (7 specs) x name_mapping settings (6) x debug modes, that the loader and "
         "dumper programs emitted for every model kind agree on per-field path, bound loader/dumper function, trail, default "
         "expression (literal / typed captured constant / factory call), rejected error classes per node, unknown-key and "
         "length checks, sieve conditions and return form; that converters between every ordered pair of kinds copy every "
         "field from the same-named source field; that no stage after the shape provider imports a kind-specific "
         "introspector; that the builtin shape provider lists each documented kind once with __init__ introspection last. "
         "Universal over input data (emitted text is audited, never run); bounded over models and kinds (sqlalchemy is not "
         "enumerated).",
    level_note="Trusted: Python ast; the class-definition templates of the five kinds in sa/gen_child.py. Known finding: "
               "TypedDict fields are listed alphabetically, so list layouts differ from every other kind.",
    design_ref="DESIGN.md 8.8",
)

NA.discard("C16")
CHECKS["C16"] = dict(
    category="translation_validation",
    technique="translation validation of generic resolution on compiler output (tier G): per parametrisation of enumerated "
              "generic dataclass hierarchies the function bound as loader/dumper of each field (with the callables it closes "
              "over) is read from the emitted namespace and compared with the scalar leaves of the annotation an independent "
              "resolver substitutes through the hierarchy; both products requested from one retort in both orders (history independence of the resolution)",
    text="Decides, for the enumerated hierarchies (containers, two parameters, re-ordered parameters, partial binding, "
         "non-generic child of a parametrised base, three levels, shadowing annotation, renamed variable, bound / constrained "
         "/ plain TypeVars used bare, two generic bases, annotations in another variable order, plain class beside a subscripted "
         "base, plain subclass of a generic, PEP 604 unions, same-spelling override, diamond; dataclass plus TypedDict, attrs, "
         "NamedTuple and pydantic hierarchies) and 75 parametrisations (quick), that the type used to load and to dump each "
         "field is the annotation with every type variable replaced by the bound argument or the documented implicit "
         "parameter: every pool type has its own strict loader function, so the bound function identifies the type. Universal "
         "over data (nothing emitted is called); bounded over hierarchies.",
    level_note="Trusted: Python ast; the resolver oracle (_g_resolve in sa/genprog.py) written from the property statement; "
               "distinct pool types have distinct loader functions. TypeVarTuple, InitVar, class-init models not "
               "enumerated. Tier S: memo keys inside the resolver singletons.",
    design_ref="DESIGN.md 8.9",
)


CHECKS["C01"] = dict(
    category="other",
    technique="sibling cross-check of loader and dumper: (1) per scalar provider the type the dumper emits against the exact-type "
              "guards of the strict loader; (2) on compiler output (tier G) the field paths of the emitted model loader against "
              "those of the emitted model dumper of the same retort, for enumerated name_mapping configurations and model kinds",
    text="Does NOT decide round-trip equality (it quantifies over runtime values). Decides two necessary conditions whose truth is "
         "in the shape of the code: the representation a scalar dumper emits is of a type its strict loader accepts (otherwise "
         "load(dump(x)) raises for every x), and every field that the generated loader and dumper of one configuration both "
         "handle is read from exactly the path it is written to (otherwise load(dump(x)) loses or misplaces the field for "
         "every x). The second clause compares the two emitted programs with each other; no oracle is involved.",
    level_note="Trusted: Python ast; the audit of emitted programs (sa/genaudit.py). Not decided: equality of values, lossy "
               "representations (omit_default, sets, float precision), extras, non-model container codecs beyond the scalar table.",
    design_ref="DESIGN.md 8.10",
)
NA.discard("C01")
