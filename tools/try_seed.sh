#!/bin/bash
# usage: try_seed.sh <PROP> <worktree> <n> [--skip-tests]
# verifies a seeded change in its scratch worktree, then runs the check of <PROP> against /repo with the patch applied
PROP=$1; WT=$2; N=$3; SKIP=$4
S=$WT/seeds/$N
export PYTHONPATH=$WT/src:$WT/tests/tests_helpers
cd $WT || exit 2
git checkout -q -- . 2>/dev/null
echo "== clean demo"; /venv/bin/python $S/demo.py > /tmp/seed_clean.out 2>&1; echo "rc=$? $(tail -1 /tmp/seed_clean.out)"
git apply $S/patch.diff || { echo "PATCH DOES NOT APPLY in worktree"; exit 2; }
echo "== patched demo"; /venv/bin/python $S/demo.py > /tmp/seed_patched.out 2>&1; echo "rc=$? $(tail -1 /tmp/seed_patched.out)"
if [ "$SKIP" != "--skip-tests" ]; then
  echo "== tests with patch"; /venv/bin/python -m pytest -q -p no:cacheprovider tests 2>&1 | tail -1
fi
git checkout -q -- .
unset PYTHONPATH
cd /repo || exit 2
if ! git apply --check $S/patch.diff 2>/dev/null; then echo "PATCH DOES NOT APPLY to /repo"; exit 2; fi
git apply $S/patch.diff
cd /verif
for tier in quick thorough; do
  echo "== check $PROP $tier"; ./check $PROP --tier $tier --no-write 2>&1 | grep -E "VIOLATION|rule=|ANALYSIS-ERROR|OK:|VIOLATED" | head -8
done
git -C /repo checkout -q -- .
git -C /repo status --short | head -3
