#!/usr/bin/env python3
"""Regenerates MANIFEST.json from the table below (single source of truth for the interface)."""
import json
from pathlib import Path

ROOT = Path(__file__).resolve().parent.parent

BASELINE_CMD = ("cd /repo && /venv/bin/python -m pytest -ra -q -p no:cacheprovider --timeout=900 "
                "--continue-on-collection-errors")

# id -> (category, technique, text, level_note, design_ref)
CHECKS = {}
NOT_APPLICABLE = {}


def load_table():
    import importlib.util
    spec = importlib.util.spec_from_file_location("manifest_table", ROOT / "tools" / "manifest_table.py")
    mod = importlib.util.module_from_spec(spec)
    spec.loader.exec_module(mod)
    return mod.CHECKS, mod.pending()


def main():
    checks, pending = load_table()
    na = {k: v for k, v in NOT_APPLICABLE.items() if k not in checks}
    for pid, reason in pending.items():
        if pid not in checks:
            na[pid] = reason
    manifest = {
        "version": 1,
        "setup_cmd": "/venv/bin/python -m compileall -q /verif/sa",
        "hooks": {
            "guard": "REAGENTO_ADAPTIX_VERIF",
            "enable": "no hooks: all analysis is external to /repo (ast of the working tree); the guard is unused",
            "baseline_off_cmd": BASELINE_CMD,
            "source_commits": [],
            "add_only": True,
        },
        "engines": [
            {"name": "sa", "path": "/verif/sa", "serves_properties": sorted(checks),
             "kind_free_text": "repository-specific static analyser over Python ast: interprocedural value "
                               "resolution, exception-escape abstract interpretation, typestate/path rules, "
                               "sibling cross-checks, template-hole taint analysis, audit of generated sources"},
        ],
        "checks": [],
        "not_applicable": [{"property_id": k, "reason": v} for k, v in sorted(na.items())],
        "notes": "All commands run with cwd=/verif. exit 0 ok / exit 1 VIOLATION / exit 2 ANALYSIS-ERROR (vanished "
                 "anchor, undecidable construct, instance count below floor). Known findings: known_findings.json.",
    }
    for pid in sorted(checks):
        c = checks[pid]
        manifest["checks"].append({
            "property_id": pid,
            "quick_cmd": f"./check {pid} --tier quick",
            "thorough_cmd": f"./check {pid} --tier thorough",
            "evidence_file": f"/verif/evidence/{pid}.json",
            "replay_cmd_template": "./check " + pid + " --replay {path}",
            "engine": "sa",
            "level_claimed": {"category": c["category"], "text": c["text"], "design_ref": c["design_ref"]},
            "level_note": c["level_note"],
            "technique": c["technique"],
        })
    (ROOT / "MANIFEST.json").write_text(json.dumps(manifest, indent=1) + "\n")
    print("wrote MANIFEST.json with", len(manifest["checks"]), "checks,", len(manifest["not_applicable"]), "n/a")


if __name__ == "__main__":
    main()
