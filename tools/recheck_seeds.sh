#!/bin/bash
# re-validate every saved seeded change against the current checks: apply to /repo, run the property's quick check, revert.
# usage: tools/recheck_seeds.sh [filter]
cd /verif || exit 2
fail=0
if [ -n "$(git -C /repo status --short)" ]; then echo "/repo is not clean"; exit 2; fi
for d in /verif/seeded/*${1}*/; do
  name=$(basename $d); prop=${name%%-*}
  if ! git -C /repo apply --check $d/patch.diff 2>/dev/null; then echo "NOAPPLY  $name"; fail=1; continue; fi
  git -C /repo apply $d/patch.diff
  out=$(./check $prop --tier quick --no-write 2>&1)
  rc=$?
  git -C /repo checkout -q -- . ; git -C /repo clean -fdq src 2>/dev/null
  rules=$(echo "$out" | grep -o "rule=[A-Za-z.-]*" | sort -u | tr '\n' ' ')
  if [ $rc -eq 1 ] && echo "$out" | grep -q "^VIOLATION"; then echo "DETECTED $name $rules"; else echo "MISSED($rc) $name"; fail=1; fi
done
exit $fail
