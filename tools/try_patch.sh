#!/bin/bash
# usage: try_patch.sh <PROP> <patch> [tier...] : apply a patch to /repo, run the property's check(s), revert
PROP=$1; P=$2; shift 2; TIERS=${@:-quick}
cd /repo || exit 2
git apply --check $P 2>/dev/null || { echo "PATCH DOES NOT APPLY to /repo"; exit 2; }
git apply $P
cd /verif
for tier in $TIERS; do
  echo "== check $PROP $tier"; ./check $PROP --tier $tier --no-write 2>&1 | grep -E "VIOLATION|rule=|ANALYSIS-ERROR|OK:|VIOLATED|KNOWN" | head -10
done
git -C /repo checkout -q -- .
git -C /repo status --short | head -3
