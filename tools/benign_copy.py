#!/usr/bin/env python3
"""benign_copy.py <mode> <dest>: write a behaviour-preserving transformation of /repo to <dest> (outside /repo and /verif) so that
`./check <id> --repo <dest>` can be used to measure false alarms.  Modes:
  unparse  every source file rewritten by ast.unparse (formatting, comments and line numbers change)
  rename   additionally every function-local variable is renamed (x -> x_rn), consistently through nested closures;
           parameters, globals, imports, except-names and class-body names are left alone.  The repository's suite passes on it.
  docstring every function / class without a docstring gets one (the first statement of every body changes)
  tempvar  every `return <call>` of a function that is not a generator becomes `result_tv = <call>; return result_tv`
           (an idiom change: measures how much the checks depend on the literal shape of return statements)
Remove <dest> after use."""
import ast
import pathlib
import shutil
import sys


class Renamer(ast.NodeTransformer):
    def __init__(self, names):
        self.names = names

    def visit_Name(self, node):
        if node.id in self.names:
            return ast.copy_location(ast.Name(id=node.id + "_rn", ctx=node.ctx), node)
        return node


def process_function(fn):
    stored, skip = set(), set()
    for n in ast.walk(fn):
        if isinstance(n, (ast.FunctionDef, ast.AsyncFunctionDef, ast.Lambda)):
            a = n.args
            for x in a.posonlyargs + a.args + a.kwonlyargs:
                skip.add(x.arg)
            if a.vararg:
                skip.add(a.vararg.arg)
            if a.kwarg:
                skip.add(a.kwarg.arg)
            if not isinstance(n, ast.Lambda):
                skip.add(n.name)
        elif isinstance(n, ast.ClassDef):
            skip.add(n.name)
            for st in n.body:
                for x in ast.walk(st):
                    if isinstance(x, ast.Name) and isinstance(x.ctx, ast.Store):
                        skip.add(x.id)
        elif isinstance(n, (ast.Global, ast.Nonlocal)):
            skip.update(n.names)
        elif isinstance(n, ast.ExceptHandler) and n.name:
            skip.add(n.name)
        elif isinstance(n, (ast.Import, ast.ImportFrom)):
            for al in n.names:
                skip.add((al.asname or al.name).split(".")[0])
        elif isinstance(n, ast.Name) and isinstance(n.ctx, ast.Store):
            stored.add(n.id)
        elif isinstance(n, (ast.MatchAs, ast.MatchStar)) and n.name:
            skip.add(n.name)
    names = {x for x in stored - skip if not x.startswith("__")}
    if names:
        Renamer(names).visit(fn)
    return len(names)


def outer_functions(body):
    for st in body:
        if isinstance(st, (ast.FunctionDef, ast.AsyncFunctionDef)):
            yield st
        elif isinstance(st, ast.ClassDef):
            yield from outer_functions(st.body)
        elif isinstance(st, (ast.If, ast.Try)):
            blocks = [st.body, st.orelse] + ([h.body for h in st.handlers] if isinstance(st, ast.Try) else [])
            for b in blocks:
                yield from outer_functions(b)


def main():
    mode, dest = sys.argv[1], pathlib.Path(sys.argv[2])
    if str(dest).startswith(("/repo", "/verif")):
        sys.exit("destination must be outside /repo and /verif")
    if dest.exists():
        shutil.rmtree(dest)
    dest.mkdir(parents=True)
    for sub in ("src", "docs", "tests"):
        shutil.copytree(f"/repo/{sub}", dest / sub)
    shutil.copy("/repo/pyproject.toml", dest / "pyproject.toml")
    n = 0
    for p in (dest / "src" / "adaptix").rglob("*.py"):
        tree = ast.parse(p.read_text())
        if mode == "rename":
            for fn in outer_functions(tree.body):
                n += process_function(fn)
        if mode == "docstring":
            # every function and class without a docstring gets one (first statement of the body changes)
            for node in ast.walk(tree):
                if isinstance(node, (ast.FunctionDef, ast.AsyncFunctionDef, ast.ClassDef)) and ast.get_docstring(node) is None:
                    node.body.insert(0, ast.Expr(value=ast.Constant(value=f"Documentation of {node.name}.")))
                    n += 1
            ast.fix_missing_locations(tree)
        if mode == "tempvar":
            class T(ast.NodeTransformer):
                def visit_Lambda(self, node):
                    return node

                def _block(self, stmts):
                    out = []
                    for st in stmts:
                        st = self.visit(st)
                        if isinstance(st, ast.Return) and isinstance(st.value, ast.Call):
                            nonlocal n
                            n += 1
                            out.append(ast.Assign(targets=[ast.Name(id="result_tv", ctx=ast.Store())], value=st.value, lineno=st.lineno))
                            out.append(ast.Return(value=ast.Name(id="result_tv", ctx=ast.Load())))
                        else:
                            out.append(st)
                    return out

                def generic_visit(self, node):
                    for field in ("body", "orelse", "finalbody"):
                        v = getattr(node, field, None)
                        if isinstance(v, list) and v and isinstance(v[0], ast.stmt):
                            setattr(node, field, self._block(v))
                    if isinstance(node, ast.Try):
                        for h in node.handlers:
                            h.body = self._block(h.body)
                    if isinstance(node, ast.Match):
                        for c in node.cases:
                            c.body = self._block(c.body)
                    return node
            T().visit(tree)
            ast.fix_missing_locations(tree)
        p.write_text(ast.unparse(tree) + "\n")
    print(f"{mode}: wrote {dest} ({n} locals renamed)")


if __name__ == "__main__":
    main()
