#!/usr/bin/env python3
"""benign_copy.py <mode> <dest>: write a behaviour-preserving transformation of /repo to <dest> (outside /repo and /verif) so that
`./check <id> --repo <dest>` can be used to measure false alarms.  Modes:
  unparse  every source file rewritten by ast.unparse (formatting, comments and line numbers change)
  rename   additionally every function-local variable is renamed (x -> x_rn), consistently through nested closures;
           parameters, globals, imports, except-names and class-body names are left alone.  The repository's suite passes on it.
  docstring every function / class without a docstring gets one (the first statement of every body changes)
  tempvar  every `return <call>` of a function that is not a generator becomes `result_tv = <call>; return result_tv`
           (an idiom change: measures how much the checks depend on the literal shape of return statements)
  invertif every `if c: A else: B` (no elif) and every `a if c else b` INSIDE a function becomes `if not c: B else: A` /
           `b if not c else a`; `not` is folded for `not x`, `==`/`!=`, `is`/`is not`, `in`/`not in` (measures dependence on guard polarity)
  comp2loop every `name = [e for v in it if c]` / `{...}` / `{k: v ...}` (one generator, inside a function, comprehension variables
           not used elsewhere in the function) becomes `name = []` + a for loop with append / add / item assignment
  reorderdefs the methods of every class are put into reverse alphabetical order (the slots of the body that hold methods keep holding
           methods; classes with @overload / @x.setter / decorator references to sibling methods are left alone)
  elseafterreturn inside functions, `if t: ...; return/raise` followed by more statements of the same block becomes
           `if t: ... else: <the rest of the block>` (the style some linters forbid and others enforce)
Remove <dest> after use."""
import ast
import pathlib
import shutil
import sys


class Renamer(ast.NodeTransformer):
    def __init__(self, names):
        self.names = names

    def visit_Name(self, node):
        if node.id in self.names:
            return ast.copy_location(ast.Name(id=node.id + "_rn", ctx=node.ctx), node)
        return node


def process_function(fn):
    stored, skip = set(), set()
    for n in ast.walk(fn):
        if isinstance(n, (ast.FunctionDef, ast.AsyncFunctionDef, ast.Lambda)):
            a = n.args
            for x in a.posonlyargs + a.args + a.kwonlyargs:
                skip.add(x.arg)
            if a.vararg:
                skip.add(a.vararg.arg)
            if a.kwarg:
                skip.add(a.kwarg.arg)
            if not isinstance(n, ast.Lambda):
                skip.add(n.name)
        elif isinstance(n, ast.ClassDef):
            skip.add(n.name)
            for st in n.body:
                for x in ast.walk(st):
                    if isinstance(x, ast.Name) and isinstance(x.ctx, ast.Store):
                        skip.add(x.id)
        elif isinstance(n, (ast.Global, ast.Nonlocal)):
            skip.update(n.names)
        elif isinstance(n, ast.ExceptHandler) and n.name:
            skip.add(n.name)
        elif isinstance(n, (ast.Import, ast.ImportFrom)):
            for al in n.names:
                skip.add((al.asname or al.name).split(".")[0])
        elif isinstance(n, ast.Name) and isinstance(n.ctx, ast.Store):
            stored.add(n.id)
        elif isinstance(n, (ast.MatchAs, ast.MatchStar)) and n.name:
            skip.add(n.name)
    names = {x for x in stored - skip if not x.startswith("__")}
    if names:
        Renamer(names).visit(fn)
    return len(names)


def outer_functions(body):
    for st in body:
        if isinstance(st, (ast.FunctionDef, ast.AsyncFunctionDef)):
            yield st
        elif isinstance(st, ast.ClassDef):
            yield from outer_functions(st.body)
        elif isinstance(st, (ast.If, ast.Try)):
            blocks = [st.body, st.orelse] + ([h.body for h in st.handlers] if isinstance(st, ast.Try) else [])
            for b in blocks:
                yield from outer_functions(b)


def main():
    mode, dest = sys.argv[1], pathlib.Path(sys.argv[2])
    if str(dest).startswith(("/repo", "/verif")):
        sys.exit("destination must be outside /repo and /verif")
    if dest.exists():
        shutil.rmtree(dest)
    dest.mkdir(parents=True)
    for sub in ("src", "docs", "tests"):
        shutil.copytree(f"/repo/{sub}", dest / sub)
    shutil.copy("/repo/pyproject.toml", dest / "pyproject.toml")
    n = 0
    for p in (dest / "src" / "adaptix").rglob("*.py"):
        tree = ast.parse(p.read_text())
        if mode == "rename":
            for fn in outer_functions(tree.body):
                n += process_function(fn)
        if mode == "docstring":
            # every function and class without a docstring gets one (first statement of the body changes)
            for node in ast.walk(tree):
                if isinstance(node, (ast.FunctionDef, ast.AsyncFunctionDef, ast.ClassDef)) and ast.get_docstring(node) is None:
                    node.body.insert(0, ast.Expr(value=ast.Constant(value=f"Documentation of {node.name}.")))
                    n += 1
            ast.fix_missing_locations(tree)
        if mode == "tempvar":
            class T(ast.NodeTransformer):
                def visit_Lambda(self, node):
                    return node

                def _block(self, stmts):
                    out = []
                    for st in stmts:
                        st = self.visit(st)
                        if isinstance(st, ast.Return) and isinstance(st.value, ast.Call):
                            nonlocal n
                            n += 1
                            out.append(ast.Assign(targets=[ast.Name(id="result_tv", ctx=ast.Store())], value=st.value, lineno=st.lineno))
                            out.append(ast.Return(value=ast.Name(id="result_tv", ctx=ast.Load())))
                        else:
                            out.append(st)
                    return out

                def generic_visit(self, node):
                    for field in ("body", "orelse", "finalbody"):
                        v = getattr(node, field, None)
                        if isinstance(v, list) and v and isinstance(v[0], ast.stmt):
                            setattr(node, field, self._block(v))
                    if isinstance(node, ast.Try):
                        for h in node.handlers:
                            h.body = self._block(h.body)
                    if isinstance(node, ast.Match):
                        for c in node.cases:
                            c.body = self._block(c.body)
                    return node
            T().visit(tree)
            ast.fix_missing_locations(tree)
        if mode == "invertif":
            INV = {ast.Eq: ast.NotEq, ast.NotEq: ast.Eq, ast.Is: ast.IsNot, ast.IsNot: ast.Is, ast.In: ast.NotIn, ast.NotIn: ast.In}

            def negate(c):
                if isinstance(c, ast.UnaryOp) and isinstance(c.op, ast.Not):
                    return c.operand
                if isinstance(c, ast.Compare) and len(c.ops) == 1 and type(c.ops[0]) in INV:
                    return ast.Compare(left=c.left, ops=[INV[type(c.ops[0])]()], comparators=c.comparators)
                return ast.UnaryOp(op=ast.Not(), operand=c)

            class I(ast.NodeTransformer):
                depth = 0

                def visit_FunctionDef(self, node):
                    self.depth += 1
                    self.generic_visit(node)
                    self.depth -= 1
                    return node
                visit_AsyncFunctionDef = visit_FunctionDef

                def visit_If(self, node):
                    self.generic_visit(node)
                    if self.depth and node.orelse and not (len(node.orelse) == 1 and isinstance(node.orelse[0], ast.If)):
                        nonlocal n
                        n += 1
                        return ast.If(test=negate(node.test), body=node.orelse, orelse=node.body)
                    return node

                def visit_IfExp(self, node):
                    self.generic_visit(node)
                    if self.depth:
                        nonlocal n
                        n += 1
                        return ast.IfExp(test=negate(node.test), body=node.orelse, orelse=node.body)
                    return node
            I().visit(tree)
            ast.fix_missing_locations(tree)
        if mode == "comp2loop":
            def rewrite_fn(fn):
                nonlocal n
                # names used anywhere in the function, with multiplicity
                def convert(stmts):
                    nonlocal n
                    out = []
                    for st in stmts:
                        for field in ("body", "orelse", "finalbody"):
                            v = getattr(st, field, None)
                            if isinstance(v, list) and v and isinstance(v[0], ast.stmt) and not isinstance(st, (ast.FunctionDef, ast.AsyncFunctionDef, ast.ClassDef)):
                                setattr(st, field, convert(v))
                        if isinstance(st, ast.Try):
                            for h in st.handlers:
                                h.body = convert(h.body)
                        c = st.value if isinstance(st, ast.Assign) and len(st.targets) == 1 and isinstance(st.targets[0], ast.Name) else None
                        if isinstance(c, (ast.ListComp, ast.SetComp, ast.DictComp)) and len(c.generators) == 1 and not c.generators[0].is_async:
                            g = c.generators[0]
                            tnames = {x.id for x in ast.walk(g.target) if isinstance(x, ast.Name)}
                            inside = {id(x) for x in ast.walk(c)}
                            clash = any(isinstance(x, ast.Name) and x.id in tnames and id(x) not in inside for x in ast.walk(fn))
                            tgt = st.targets[0].id
                            selfref = any(isinstance(x, ast.Name) and x.id == tgt for x in ast.walk(c))
                            has_scope = any(isinstance(x, (ast.Lambda, ast.ListComp, ast.SetComp, ast.DictComp, ast.GeneratorExp, ast.NamedExpr))
                                            for x in ast.walk(c) if x is not c)
                            if not clash and not selfref and not has_scope:
                                n += 1
                                if isinstance(c, ast.ListComp):
                                    init = ast.List(elts=[], ctx=ast.Load())
                                    add = ast.Expr(ast.Call(func=ast.Attribute(value=ast.Name(id=tgt, ctx=ast.Load()), attr="append", ctx=ast.Load()), args=[c.elt], keywords=[]))
                                elif isinstance(c, ast.SetComp):
                                    init = ast.Call(func=ast.Name(id="set", ctx=ast.Load()), args=[], keywords=[])
                                    add = ast.Expr(ast.Call(func=ast.Attribute(value=ast.Name(id=tgt, ctx=ast.Load()), attr="add", ctx=ast.Load()), args=[c.elt], keywords=[]))
                                else:
                                    init = ast.Dict(keys=[], values=[])
                                    add = ast.Assign(targets=[ast.Subscript(value=ast.Name(id=tgt, ctx=ast.Load()), slice=c.key, ctx=ast.Store())], value=c.value)
                                body = [add]
                                for cond in reversed(g.ifs):
                                    body = [ast.If(test=cond, body=body, orelse=[])]
                                out.append(ast.copy_location(ast.Assign(targets=[ast.Name(id=tgt, ctx=ast.Store())], value=init), st))
                                out.append(ast.copy_location(ast.For(target=g.target, iter=g.iter, body=body, orelse=[]), st))
                                continue
                        out.append(st)
                    return out
                fn.body = convert(fn.body)
            for fn in [x for x in ast.walk(tree) if isinstance(x, (ast.FunctionDef, ast.AsyncFunctionDef))]:
                # only outermost handling per function body; nested functions are visited on their own
                rewrite_fn(fn)
            ast.fix_missing_locations(tree)
        if mode == "reorderdefs":
            for cls in [x for x in ast.walk(tree) if isinstance(x, ast.ClassDef)]:
                idx = [i for i, st in enumerate(cls.body) if isinstance(st, (ast.FunctionDef, ast.AsyncFunctionDef))]
                fns = [cls.body[i] for i in idx]
                names = {f.name for f in fns}
                if len(names) != len(fns):
                    continue      # overloads / setters re-define a name
                if any(isinstance(nm, ast.Name) and nm.id in names for f in fns for d in f.decorator_list for nm in ast.walk(d)):
                    continue
                # a class-body statement between the methods may read a method (x = staticmethod(f)): keep such classes
                others = [st for st in cls.body if not isinstance(st, (ast.FunctionDef, ast.AsyncFunctionDef))]
                if any(isinstance(nm, ast.Name) and nm.id in names for st in others for nm in ast.walk(st)):
                    continue
                if len(fns) > 1:
                    for i, f in zip(idx, sorted(fns, key=lambda f: f.name, reverse=True)):
                        cls.body[i] = f
                    n += 1
        if mode == "elseafterreturn":
            def fold(stmts):
                nonlocal n
                out = list(stmts)
                for i, st in enumerate(out):
                    if isinstance(st, ast.If) and not st.orelse and isinstance(st.body[-1], (ast.Return, ast.Raise)) and i + 1 < len(out):
                        rest = out[i + 1:]
                        # (a nested def in the rest stays visible: Python scoping is per function, not per block)
                        st.orelse = fold(rest)
                        st.body = fold(st.body)
                        n += 1
                        return out[:i + 1]
                    for field in ("body", "orelse", "finalbody"):
                        v = getattr(st, field, None)
                        if isinstance(v, list) and v and isinstance(v[0], ast.stmt) and not isinstance(st, (ast.FunctionDef, ast.AsyncFunctionDef, ast.ClassDef)):
                            setattr(st, field, fold(v))
                    if isinstance(st, ast.Try):
                        for h in st.handlers:
                            h.body = fold(h.body)
                return out
            for fn in [x for x in ast.walk(tree) if isinstance(x, (ast.FunctionDef, ast.AsyncFunctionDef))]:
                fn.body = fold(fn.body)
            ast.fix_missing_locations(tree)
        p.write_text(ast.unparse(tree) + "\n")
    print(f"{mode}: wrote {dest} ({n} locals renamed)")


if __name__ == "__main__":
    main()
